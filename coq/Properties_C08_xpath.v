(* Properties_C08_xpath.v — property C08 (XPath evaluation on data follows XPath 1.0 with the YANG data model):
   theorem statements only.
   Models: XPathSem.v - an executable REFERENCE semantics written from the W3C recommendation ([spec_flags]) with one
   switch per construct in which src/xpath.c departs from it ([impl_flags] = as coded); XPathConv.v - the conversion
   kernels, recommendation and as coded; XPathLookup.v - the key lookup (condition and result) next to generic
   evaluation. Proofs: XPathSemP.v, XPathConvP.v, XPathLookup.v; concrete witnesses: XPathExamples.v.
   State of the code: /repo with the XPath fixes 61e2388 .. c545a4e (their switches are removed from the model).
   The 10 kLoC evaluator of xpath.c is not transcribed: it is tied to [eval_top impl_flags] by the correspondence run
   (tools/props/comps_xpath.py), and every case in which [eval_top impl_flags] differs from [eval_top spec_flags] is a
   listed deviation of libyang (known_findings.d/xpath.json). *)
From Coq Require Import QArith Qround.
From LY Require Import Base XPathConv XPathConvP XPathTree XPathSem XPathSemP XPathExamples XPathLookup.
Local Open Scope N_scope.

(* Node-sets contain no duplicates and are in document order: every node-set value computed by the evaluator - any
   expression (all 13 axes, predicates, filters, unions, functions), any context, any tree whose node ids are the
   pre-order positions, and ANY setting of the as-coded switches: in particular for the semantics AS CODED
   ([impl_flags]) and for the reference semantics ([spec_flags]) - has strictly increasing document-order keys.
   (Until /repo commit 31c0198 the code inserted a node twice on '//' steps from nested context nodes; the statement
   then needed the hypothesis that this switch is off and was refuted for the code; the former witness is the
   regression example XPathExamples.alldesc_duplicate_regression.) *)
Theorem C08_eval_nodeset_sorted_nodup :
  forall fl t, wf_tree t ->
  forall e cx l, eval fl t cx e = Ok (VSet l) -> sorted_items l = true.
Proof. exact eval_nodeset_sorted_nodup. Qed.
Print Assumptions C08_eval_nodeset_sorted_nodup.

Theorem C08_eval_nodeset_nodup :
  forall fl t, wf_tree t ->
  forall e cx l, eval fl t cx e = Ok (VSet l) -> NoDup (map item_key l).
Proof. exact eval_nodeset_nodup. Qed.
Print Assumptions C08_eval_nodeset_nodup.

(* the two instances the property text is about *)
Theorem C08_eval_nodeset_nodup_as_coded :
  forall t, wf_tree t -> forall e c l, eval_top impl_flags t c e = Ok (VSet l) -> NoDup (map item_key l).
Proof.
  intros t Hwf e c l H. unfold eval_top in H.
  destruct (f_nsaxis impl_flags && uses_ns e); [discriminate|]. eapply eval_nodeset_nodup; eauto.
Qed.
Print Assumptions C08_eval_nodeset_nodup_as_coded.

(* a | b = b | a  (same nodes) *)
Theorem C08_union_comm :
  forall fl t cx a b l1 l2,
  eval fl t cx (EUnion a b) = Ok (VSet l1) -> eval fl t cx (EUnion b a) = Ok (VSet l2) ->
  map item_key l1 = map item_key l2.
Proof. exact union_comm. Qed.
Print Assumptions C08_union_comm.

(* e[true()] = e *)
Theorem C08_predicate_true_identity :
  forall fl t cx e l,
  eval fl t cx e = Ok (VSet l) -> eval fl t cx (EFilter e (PCons (EFun0 FTrue) PNil)) = Ok (VSet l).
Proof. exact filter_true_identity. Qed.
Print Assumptions C08_predicate_true_identity.

(* child::test from a context node = the items whose parent it is and that pass the test, in document order *)
Theorem C08_child_step_is_filter_of_children :
  forall t cx nt,
  eval spec_flags t cx (EStep ECtx false AxChild nt PNil) =
  Ok (VSet (filter (fun m => is_parent (c_item cx) m && node_test spec_flags nt (c_item cx) m) (all_items t))).
Proof. exact child_step_is_filter_of_children. Qed.
Print Assumptions C08_child_step_is_filter_of_children.

(* a step without predicates selects the union over the context nodes (per-node definition = selection from the
   whole document) *)
Theorem C08_step_no_preds_is_union :
  forall t cx base ax nt S0, wf_tree t -> is_ns_axis ax = false -> is_attr_axis ax = false ->
  eval spec_flags t cx base = Ok (VSet S0) ->
  eval spec_flags t cx (EStep base false ax nt PNil) = Ok (VSet (step_union spec_flags t ax nt S0)).
Proof. exact step_no_preds_is_union. Qed.
Print Assumptions C08_step_no_preds_is_union.

(* base//step = base/descendant-or-self::node()/step *)
Theorem C08_descendant_or_self_decomposes :
  forall t cx base ax nt S0, wf_tree t -> is_ns_axis ax = false -> is_attr_axis ax = false ->
  eval spec_flags t cx base = Ok (VSet S0) ->
  eval spec_flags t cx (EStep base true ax nt PNil) =
  eval spec_flags t cx (EStep (EStep base false AxDescendantOrSelf TNode PNil) false ax nt PNil).
Proof. exact descendant_or_self_decomposes. Qed.
Print Assumptions C08_descendant_or_self_decomposes.

(* l[k='v']: exactly the children named l with a child named k whose string value is v - the semantic statement the
   hash-based key lookup of the code (eval_name_test_try_compile_predicates + moveto_node_hash_child) has to agree with *)
Theorem C08_fastpath_equiv :
  forall t cx m ln k v,
  eval spec_flags t cx
    (EStep ECtx false AxChild (TName (Some m) ln)
       (PCons (ECmp CEq (EStep ECtx false AxChild (TName (Some m) k) PNil) (ELit v)) PNil)) =
  Ok (VSet (filter (fun inst => existsb (fun d => beq_bytes (string_value spec_flags t d) v)
                                        (cands spec_flags t AxChild (TName (Some m) k) inst))
                   (cands spec_flags t AxChild (TName (Some m) ln) (c_item cx)))).
Proof. exact fastpath_equiv. Qed.
Print Assumptions C08_fastpath_equiv.

(* the key predicate with a number: as coded (since /repo commit 434e77e evaluated generically) and by the
   recommendation the instance with key '5.0' is selected by [a:k=5] *)
Example C08_fastpath_nonstring_rhs_regression :
  exists e, observe (eval_top spec_flags ex_tree IRoot e) = ONodes [7] /\
            observe (eval_top impl_flags ex_tree IRoot e) = ONodes [7].
Proof. eexists. exact fastpath_nonstring_rhs_regression. Qed.

(* conversions. cast_string_to_number() (since /repo b906576: Number syntax checked, then strtold) is number() of the
   recommendation for EVERY string, at every precision *)
Theorem C08_s2n_impl_eq_spec :
  forall prec s, impl_s2n prec s = spec_s2n prec s.
Proof. exact s2n_impl_eq_spec. Qed.
Print Assumptions C08_s2n_impl_eq_spec.

(* the former witnesses of the strtold() behaviour, now regression values: 1e3, +5, 0x10, inf, vertical tab are NaN;
   trailing white space is accepted *)
Example C08_s2n_regression :
  impl_s2n 64 (B [49; 101; 51]%Z) = XNaN /\ impl_s2n 64 (B [32; 53; 32]%Z) = x_of_Z 5.
Proof. pose proof s2n_regression as H. split; [apply H|apply H]. Qed.

(* number -> string: lyxp_set_cast() (since /repo 54bf5db: shortest decimal that strtold() reads back) is string() of
   the recommendation, read at the precision of the code, for EVERY long double ([x_ld]: a fixed point of the rounding
   to 64 bits): NaN, infinities, both zeros, integers in and beyond the long long range, fractions *)
Theorem C08_n2s_impl_eq_spec :
  forall x, x_ld x -> impl_n2s x = spec_n2s 64 x.
Proof. exact n2s_impl_eq_spec. Qed.
Print Assumptions C08_n2s_impl_eq_spec.

Example C08_n2s_regression :
  impl_n2s (XFin false (1 # 4)) = B [48; 46; 50; 53]%Z.
Proof. apply n2s_regression. Qed.

(* floor() as coded (floorl() of the signed value since /repo commit 0327904) is the floor of the recommendation for
   ALL numbers (well formed: the magnitude is not negative): negative and positive, integral or not, both zeros,
   infinities, NaN. [x_same]: numerically equal, or both NaN. *)
Theorem C08_floor_impl_eq_spec :
  forall x, x_wf x -> x_same (impl_floor x) (spec_floor x) = true.
Proof. exact floor_impl_eq_spec. Qed.
Print Assumptions C08_floor_impl_eq_spec.

(* former refutation witnesses: floor(-1.5) = -2, ceiling(-1.5) = -1, floor(NaN) = NaN *)
Example C08_floor_ceiling_regression :
  impl_floor (XFin true (3 # 2)) = x_of_Z (-2) /\ spec_floor (XFin true (3 # 2)) = XFin true (inject_Z 2) /\
  impl_ceiling (XFin true (3 # 2)) = x_of_Z (-1) /\ spec_ceiling (XFin true (3 # 2)) = XFin true (inject_Z 1) /\
  impl_floor XNaN = XNaN /\ spec_floor XNaN = XNaN.
Proof. repeat split; vm_compute; reflexivity. Qed.

(* string-length(): bytes = characters for ASCII only *)
Theorem C08_string_length_ascii :
  forall s, forallb (fun b => b <? 128) s = true -> impl_string_length s = spec_string_length s.
Proof. exact string_length_ascii. Qed.
Print Assumptions C08_string_length_ascii.

(* the hypotheses are satisfiable by a non-trivial value: the example tree is well formed and /a:c/a:l1 selects two
   list instances, in the reference semantics and as coded *)
Example C08_hypotheses_satisfiable :
  wf_tree ex_tree /\
  observe (eval_top spec_flags ex_tree IRoot p_c_l1) = ONodes [7; 17] /\
  observe (eval_top impl_flags ex_tree IRoot p_c_l1) = ONodes [7; 17].
Proof. split; [exact ex_tree_wf|]. exact ex_path. Qed.

(* ------------------------------------------------------------------------------------------------ *)
(* key/value lookups = generic evaluation (XPathLookup.v)                                           *)
(* ------------------------------------------------------------------------------------------------ *)
(* a value expression that is context-free ([ctx_free]: no relative path start, no implicit context node, position()
   or last() outside of nested predicates) has the same value for every instance of the list - for every setting of the
   switches, in particular as coded *)
Theorem C08_ctx_free_eval :
  forall fl t e cx1 cx2, ctx_free e = true -> c_cur cx1 = c_cur cx2 -> eval fl t cx1 e = eval fl t cx2 e.
Proof. exact ctx_free_eval. Qed.
Print Assumptions C08_ctx_free_eval.

(* list[k1=v1]...[kN=vN] with values that allow the lookup ([lookup_ok]: context-free, a string or exactly one node):
   evaluating each value once and taking the instances whose keys have these values selects exactly the node-set that
   the generic evaluation of the predicates on every instance selects - same nodes, same (document) order, hence no
   duplicates - for every tree, every context (also reverse order), every candidate list, any number of keys *)
Theorem C08_lookup_eq_generic :
  forall t cx rv kvs, lookup_ok t (c_cur cx) kvs = true ->
  forall insts, apply_preds spec_flags t cx rv (key_preds kvs) insts = Ok (lookup_insts t (c_cur cx) kvs insts).
Proof. exact lookup_eq_generic. Qed.
Print Assumptions C08_lookup_eq_generic.

(* the step from every context SET, and the executable form used by the correspondence runs *)
Theorem C08_lookup_step_eq_generic :
  forall t cx base S0 m ln kvs,
  eval spec_flags t cx base = Ok (VSet S0) -> lookup_ok t (c_cur cx) kvs = true ->
  eval spec_flags t cx (EStep base false AxChild (TName (Some m) ln) (key_preds kvs)) =
  bind (fold_res (fun acc c => Ok (merge_items acc
                    (lookup_insts t (c_cur cx) kvs (cands spec_flags t AxChild (TName (Some m) ln) c)))) S0 [])
       (fun l => Ok (VSet l)).
Proof. exact lookup_step_set_eq_generic. Qed.
Print Assumptions C08_lookup_step_eq_generic.

Theorem C08_lookup_answer_eq_eval :
  forall t c e r, lookup_answer_top t c e = Some r -> eval_top spec_flags t c e = r.
Proof. exact lookup_answer_top_eq_eval. Qed.
Print Assumptions C08_lookup_answer_eq_eval.

(* the two defect classes repaired in /repo 97c7154: with the old condition the lookup differs from the generic result *)
Example C08_lookup_context_dependent_refuted :
  generic_keys (lch ECtx l_w) = Ok [] /\
  map item_key (old_lookup_insts lk_tree IRoot lA l_k (lch ECtx l_w) l_insts) = [9%N] /\
  lookup_ok lk_tree IRoot [(lA, l_k, lch ECtx l_w)] = false.
Proof. exact lookup_context_dependent_refuted. Qed.
Example C08_lookup_nodeset_as_string_refuted :
  generic_keys (lch (lch ERoot l_c) l_zz) = Ok [] /\
  map item_key (old_lookup_insts lk_tree IRoot lA l_k (lch (lch ERoot l_c) l_zz) l_insts) = [15%N] /\
  lookup_ok lk_tree IRoot [(lA, l_k, lch (lch ERoot l_c) l_zz)] = false.
Proof. exact lookup_nodeset_as_string_refuted. Qed.
