(* XmlQn.v -- the namespace handling of ONE start tag of printer_xml.c as coded after e9b7253, for values that carry module
   references (identityref, instance-identifier, xpath1.0): xml_print_node_open() / xml_print_meta() / xml_print_ns() with
   the modules of the values of the tag reserved first, definitions for value modules with LYXML_PREFIX_REQUIRED, attribute
   prefixes that avoid reserved prefixes, definitions hidden by a nested one not reused. A value is a list of pieces:
   literal bytes or a reference to a module, printed with the module's OWN prefix (lyplg_type_print with LY_VALUE_XML).
   The element tree, character data and the byte level are those of XmlDoc.v; this file adds what XmlDoc.v's canonical
   string values do not have. Tie to the code: open_tag is extracted (Extract_xmlqn.v) and compared byte for byte with the
   start tags libyang prints (T2 component comps_doc.QnTagModel); the meaning of the printed values is checked by the oracle
   comps_doc.QNamesX. *)
From LY Require Import Base XmlDoc XmlDocP.
Local Open Scope N_scope.

Record qmod := mk_qmod { qm_prefix : bytes; qm_ns : bytes }.
Inductive piece := Lit (b : bytes) | Ref (m : qmod).
Definition qvalue := list piece.
Record qmeta := mk_qmeta { qa_mod : qmod; qa_name : bytes; qa_val : qvalue }.

Definition qmod_eqb (a b : qmod) : bool := beq_bytes (qm_prefix a) (qm_prefix b) && beq_bytes (qm_ns a) (qm_ns b).
(* ly_set_add(.., list = 0): no duplicates, order of first use *)
Definition add_mod (acc : list qmod) (m : qmod) : list qmod := if existsb (qmod_eqb m) acc then acc else acc ++ [m].
Definition refs (v : qvalue) : list qmod := flat_map (fun p => match p with Ref m => [m] | Lit _ => [] end) v.
Definition value_mods (v : qvalue) : list qmod := fold_left add_mod (refs v) [].
Definition render_value (v : qvalue) : bytes :=
  flat_map (fun p => match p with Lit b => b | Ref m => qm_prefix m ++ [58] end) v.

(* xml_prefix_reserved(): the prefix is needed for ANOTHER namespace by a value of the start tag *)
Definition reserved (R : list qmod) (p ns : bytes) : bool :=
  existsb (fun m => beq_bytes (qm_prefix m) p && negb (beq_bytes (qm_ns m) ns)) R.

(* the search loop of xml_print_ns() for a prefixed namespace, innermost definition first; [inner] = the definitions
   already passed (a definition whose prefix is defined again by one of them is hidden) *)
Fixpoint find_pfx (R : list qmod) (inner st : nsstack) (ns pfx : bytes) (required : bool) : option bytes :=
  match st with
  | [] => None
  | (p, u) :: r =>
      let next := find_pfx R ((p, u) :: inner) r ns pfx required in
      if beq_bytes u ns then
        match p with
        | None => next
        | Some q =>
            if prefix_used inner q then next
            else if negb required && reserved R q ns then next
            else if beq_bytes q pfx || negb required then Some q else next
        end
      else next
  end.

(* the prefixes a generated prefix must avoid besides those in the scope *)
Definition resv_entries (R : list qmod) (ns : bytes) : nsstack :=
  flat_map (fun m => if beq_bytes (qm_ns m) ns then [] else [(Some (qm_prefix m), qm_ns m)]) R.

Definition print_ns (R : list qmod) (st : nsstack) (ns pfx : bytes) (required : bool) : list pattr * nsstack * bytes :=
  match find_pfx R [] st ns pfx required with
  | Some q => ([], st, q)
  | None =>
      let p := if required then pfx else uniq_prefix (resv_entries R ns ++ st) pfx in
      ([PDecl (Some p) ns], (Some p, ns) :: st, p)
  end.

Fixpoint decl_mods (R : list qmod) (st : nsstack) (ms : list qmod) : list pattr * nsstack :=
  match ms with
  | [] => ([], st)
  | m :: r =>
      let '(d, st1, _) := print_ns R st (qm_ns m) (qm_prefix m) true in
      let '(d2, st2) := decl_mods R st1 r in
      (d ++ d2, st2)
  end.

(* xml_print_meta(): per metadata the definitions for its value, then the attribute with any prefix of its module *)
Fixpoint print_qmetas (R : list qmod) (st : nsstack) (ms : list qmeta) : list pattr * nsstack :=
  match ms with
  | [] => ([], st)
  | a :: r =>
      let '(d1, st1) := decl_mods R st (value_mods (qa_val a)) in
      let '(d2, st2, q) := print_ns R st1 (qm_ns (qa_mod a)) (qm_prefix (qa_mod a)) false in
      let '(d3, st3) := print_qmetas R st2 r in
      (d1 ++ d2 ++ PMeta q (qa_name a) (render_value (qa_val a)) :: d3, st3)
  end.

(* the modules whose prefixes the values of the start tag use: the value of the node, then the metadata values *)
Definition tag_mods (metas : list qmeta) (v : qvalue) : list qmod :=
  fold_left add_mod (refs v ++ flat_map (fun a => refs (qa_val a)) metas) [].

(* xml_print_node_open(): default namespace, metadata, the definitions for the value of the node *)
Definition open_tag (st : nsstack) (ens : bytes) (metas : list qmeta) (v : qvalue) : list pattr * nsstack :=
  let R := tag_mods metas v in
  let '(d0, st0) := print_ns_default st ens in
  let '(d1, st1) := print_qmetas R st0 metas in
  let '(d2, st2) := decl_mods R st1 (value_mods v) in
  (d0 ++ d1 ++ d2, st2).

Lemma NoDup_app_snoc {A} (l : list A) x : NoDup l -> ~ In x l -> NoDup (l ++ [x]).
Proof.
  induction l as [|y l IH]; intros Hn Hx; [constructor; [intros []|constructor]|].
  inversion Hn as [|? ? Hy Hl]; subst. cbn [app]. constructor.
  - intro Hin. apply in_app_or in Hin. destruct Hin as [Hin|[Hin|[]]]; [exact (Hy Hin)|]. subst. apply Hx. left. reflexivity.
  - apply IH; [exact Hl|]. intro Hin. apply Hx. right. exact Hin.
Qed.

(* ------------------------------------------------------------------------------------------- *)
(* proofs                                                                                        *)
(* ------------------------------------------------------------------------------------------- *)
Lemma std_skip_inner inner s q : prefix_used inner q = false -> std_prefix_ns (rev inner ++ s) q = std_prefix_ns s q.
Proof.
  revert s. induction inner as [|[[p|] u] r IH]; intros s H; [reflexivity| |].
  - cbn [prefix_used existsb fst] in H. apply orb_false_iff in H. destruct H as [H1 H2].
    cbn [rev]. rewrite <- app_assoc. cbn [app]. rewrite (IH _ H2). cbn [std_prefix_ns]. rewrite H1. reflexivity.
  - cbn [prefix_used existsb fst] in H. cbn [orb] in H. cbn [rev]. rewrite <- app_assoc. cbn [app]. rewrite (IH _ H). reflexivity.
Qed.

(* what the search returns is defined, not hidden, and (when the prefix is only suggested) not reserved *)
Lemma find_pfx_sound R ns pfx req : forall st inner q,
  find_pfx R inner st ns pfx req = Some q ->
  std_prefix_ns (rev inner ++ st) q = Some ns /\ (req = true -> q = pfx) /\ (req = false -> reserved R q ns = false).
Proof.
  induction st as [|[p u] r IH]; intros inner q H; [discriminate|]. cbn [find_pfx] in H.
  assert (Hn : find_pfx R ((p, u) :: inner) r ns pfx req = Some q ->
               std_prefix_ns (rev inner ++ (p, u) :: r) q = Some ns /\ (req = true -> q = pfx) /\ (req = false -> reserved R q ns = false)).
  { intro H'. specialize (IH _ _ H'). cbn [rev] in IH. rewrite <- app_assoc in IH. exact IH. }
  destruct (beq_bytes u ns) eqn:Eu; [|exact (Hn H)].
  destruct p as [p|]; [|exact (Hn H)].
  destruct (prefix_used inner p) eqn:Ei; [exact (Hn H)|].
  destruct (negb req && reserved R p ns) eqn:Er; [exact (Hn H)|].
  destruct (beq_bytes p pfx || negb req) eqn:Eq; [|exact (Hn H)].
  inversion H; subst q. apply beq_bytes_eq in Eu. subst u. split; [|split].
  - rewrite (std_skip_inner _ _ _ Ei). cbn [std_prefix_ns]. rewrite beq_bytes_true. reflexivity.
  - intros ->. cbn [negb orb] in Eq. rewrite orb_false_r in Eq. apply beq_bytes_eq, Eq.
  - intros ->. cbn [negb andb] in Er. exact Er.
Qed.

(* a required prefix that is defined as needed is found *)
Lemma find_req_complete R ns pfx : forall st inner,
  prefix_used inner pfx = false -> std_prefix_ns st pfx = Some ns -> find_pfx R inner st ns pfx true = Some pfx.
Proof.
  induction st as [|[[p|] u] r IH]; intros inner Hi H; [discriminate| |].
  - cbn [std_prefix_ns] in H. cbn [find_pfx]. destruct (beq_bytes p pfx) eqn:Ep.
    + apply beq_bytes_eq in Ep. subst p. inversion H; subst u. rewrite beq_bytes_true, Hi. cbn [negb andb orb]. rewrite ?beq_bytes_true. reflexivity.
    + assert (Hn : find_pfx R ((Some p, u) :: inner) r ns pfx true = Some pfx).
      { apply IH; [|exact H]. cbn [prefix_used existsb fst]. rewrite Ep. exact Hi. }
      destruct (beq_bytes u ns); [|exact Hn]. destruct (prefix_used inner p); [exact Hn|]. cbn [negb andb orb]. try rewrite Ep. cbn [orb]. exact Hn.
  - cbn [std_prefix_ns] in H. cbn [find_pfx].
    assert (Hn : find_pfx R ((None, u) :: inner) r ns pfx true = Some pfx) by (apply IH; [exact Hi|exact H]).
    destruct (beq_bytes u ns); exact Hn.
Qed.

Lemma std_in_sprefs st q w : std_prefix_ns st q = Some w -> In q (sprefs st).
Proof.
  induction st as [|[[p|] u] r IH]; intro H; [discriminate| |]; cbn [std_prefix_ns] in H.
  - change (sprefs ((Some p, u) :: r)) with (p :: sprefs r). destruct (beq_bytes p q) eqn:E; [left; apply beq_bytes_eq, E|right; exact (IH H)].
  - exact (IH H).
Qed.

Lemma reserved_false R p ns m : reserved R p ns = false -> In m R -> qm_prefix m = p -> qm_ns m = ns.
Proof.
  unfold reserved. intros H Hin Hp. destruct (existsb _ R) eqn:E; [discriminate|].
  assert (Hm : beq_bytes (qm_prefix m) p && negb (beq_bytes (qm_ns m) ns) = false).
  { destruct (beq_bytes (qm_prefix m) p && negb (beq_bytes (qm_ns m) ns)) eqn:Em; [|reflexivity].
    assert (existsb (fun m0 => beq_bytes (qm_prefix m0) p && negb (beq_bytes (qm_ns m0) ns)) R = true) by (apply existsb_exists; exists m; split; assumption).
    congruence. }
  subst p. rewrite beq_bytes_true in Hm. cbn [andb] in Hm. apply negb_false_iff in Hm. apply beq_bytes_eq, Hm.
Qed.

Lemma resv_sprefs R ns m : In m R -> qm_ns m <> ns -> In (qm_prefix m) (sprefs (resv_entries R ns)).
Proof.
  intros Hin Hne. unfold resv_entries, sprefs. apply in_flat_map. exists (Some (qm_prefix m), qm_ns m). split; [|left; reflexivity].
  apply in_flat_map. exists m. split; [exact Hin|]. rewrite (beq_bytes_false _ _ Hne). left. reflexivity.
Qed.

(* a generated prefix is not defined in the scope and not reserved *)
Lemma uniq_fresh R st ns pfx : let p := uniq_prefix (resv_entries R ns ++ st) pfx in ~ In p (sprefs st) /\ reserved R p ns = false.
Proof.
  intro p. pose proof (uniq_prefix_free (resv_entries R ns ++ st) pfx) as H. fold p in H. rewrite sprefs_app in H. split.
  - intro Hp. apply H, in_or_app. right. exact Hp.
  - unfold reserved. destruct (existsb _ R) eqn:E; [|reflexivity]. exfalso. apply existsb_exists in E. destruct E as (m & Hin & Hm).
    apply andb_true_iff in Hm. destruct Hm as [H1 H2]. apply beq_bytes_eq in H1. apply negb_true_iff in H2.
    apply H, in_or_app. left. rewrite <- H1. apply (resv_sprefs R ns m Hin). intro Hq. rewrite Hq, beq_bytes_true in H2. discriminate.
Qed.

(* ---- obligations: pairs (prefix, namespace) that must keep resolving while the tag is written ---- *)
Definition Rpairs (R : list qmod) : list (bytes * bytes) := map (fun m => (qm_prefix m, qm_ns m)) R.
Definition Agree (R : list qmod) : Prop :=
  forall m1 m2, In m1 R -> In m2 R -> qm_prefix m1 = qm_prefix m2 -> qm_ns m1 = qm_ns m2.
(* every obligation is a value module of the tag or a prefix that no value module needs for another namespace *)
Definition OWf (R : list qmod) (O : list (bytes * bytes)) : Prop :=
  forall q w, In (q, w) O -> In (q, w) (Rpairs R) \/ reserved R q w = false.

Lemma std_push st p u q w : std_prefix_ns st q = Some w -> (p = q -> u = w) -> std_prefix_ns ((Some p, u) :: st) q = Some w.
Proof.
  intros H Hc. cbn [std_prefix_ns]. destruct (beq_bytes p q) eqn:E; [|exact H]. apply beq_bytes_eq in E. rewrite (Hc E). reflexivity.
Qed.

(* the state while a tag is written: [tagd] = the prefixed definitions written in the tag so far *)
Record TagInv (R : list qmod) (O : list (bytes * bytes)) (st : nsstack) (tagd : list (bytes * bytes)) : Prop := {
  ti_wf : OWf R O;
  ti_tag : forall p u, In (p, u) tagd -> In (p, u) O /\ std_prefix_ns st p = Some u;
  ti_nodup : NoDup (map fst tagd) }.

Definition new_decl (d : list pattr) : list (bytes * bytes) :=
  flat_map (fun a => match a with PDecl (Some p) u => [(p, u)] | _ => [] end) d.

(* one call of xml_print_ns() for a value module *)
Lemma print_ns_req R O st tagd m d st1 q :
  Agree R -> In m R -> TagInv R O st tagd -> incl (Rpairs R) O ->
  print_ns R st (qm_ns m) (qm_prefix m) true = (d, st1, q) ->
  TagInv R O st1 (tagd ++ new_decl d) /\ std_prefix_ns st1 (qm_prefix m) = Some (qm_ns m) /\
  (forall q' w, In (q', w) O -> std_prefix_ns st q' = Some w -> std_prefix_ns st1 q' = Some w).
Proof.
  intros HA Hm [Wf Tg Nd] HRO H. unfold print_ns in H.
  destruct (find_pfx R [] st (qm_ns m) (qm_prefix m) true) as [q0|] eqn:Ef.
  - inversion H; subst d st1 q. cbn [new_decl flat_map]. rewrite app_nil_r.
    destruct (find_pfx_sound R _ _ _ _ _ _ Ef) as (S1 & S2 & _). cbn [rev app] in S1. rewrite (S2 eq_refl) in S1.
    split; [constructor; assumption|]. split; [exact S1|]. intros; assumption.
  - inversion H; subst d st1 q. cbn [new_decl flat_map app].
    assert (Hmo : In (qm_prefix m, qm_ns m) O) by (apply HRO; unfold Rpairs; apply in_map_iff; exists m; split; [reflexivity|exact Hm]).
    assert (Hc : forall q' w, In (q', w) O -> qm_prefix m = q' -> qm_ns m = w).
    { intros q' w Hin Hq. destruct (Wf q' w Hin) as [Hr|Hr].
      - unfold Rpairs in Hr. apply in_map_iff in Hr. destruct Hr as (m2 & E2 & Hin2). injection E2 as E2a E2b. rewrite <- E2b. apply (HA m m2 Hm Hin2). rewrite E2a. exact Hq.
      - apply (reserved_false R q' w m Hr Hm Hq). }
    assert (Hkeep : forall q' w, In (q', w) O -> std_prefix_ns st q' = Some w -> std_prefix_ns ((Some (qm_prefix m), qm_ns m) :: st) q' = Some w).
    { intros q' w Hin Hs. apply std_push; [exact Hs|apply (Hc q' w Hin)]. }
    assert (Hnew : std_prefix_ns ((Some (qm_prefix m), qm_ns m) :: st) (qm_prefix m) = Some (qm_ns m)).
    { cbn [std_prefix_ns]. rewrite beq_bytes_true. reflexivity. }
    split; [|split; [exact Hnew|exact Hkeep]].
    constructor; [exact Wf| |].
    + intros p u Hin. apply in_app_or in Hin. destruct Hin as [Hin|[Hin|[]]].
      * destruct (Tg p u Hin) as [T1 T2]. split; [exact T1|apply (Hkeep p u T1 T2)].
      * inversion Hin; subst p u. split; [exact Hmo|exact Hnew].
    + rewrite map_app. cbn [map fst]. apply NoDup_app_snoc; [exact Nd|].
      intro Hin. apply in_map_iff in Hin. destruct Hin as ([p u] & Ep & Hin). cbn [fst] in Ep. subst p.
      destruct (Tg _ u Hin) as [T1 T2]. rewrite <- (Hc _ u T1 eq_refl) in T2.
      rewrite (find_req_complete R (qm_ns m) (qm_prefix m) st [] eq_refl T2) in Ef. discriminate.
Qed.

Definition Keep (O : list (bytes * bytes)) (st st1 : nsstack) : Prop :=
  forall q w, In (q, w) O -> std_prefix_ns st q = Some w -> std_prefix_ns st1 q = Some w.

(* one call of xml_print_ns() for the name of a metadata attribute *)
Lemma print_ns_nreq R O st tagd ns pfx d st1 q :
  TagInv R O st tagd ->
  print_ns R st ns pfx false = (d, st1, q) ->
  TagInv R ((q, ns) :: O) st1 (tagd ++ new_decl d) /\ std_prefix_ns st1 q = Some ns /\ Keep O st st1.
Proof.
  intros [Wf Tg Nd] H. unfold print_ns in H.
  destruct (find_pfx R [] st ns pfx false) as [q0|] eqn:Ef.
  - inversion H; subst d st1 q. cbn [new_decl flat_map]. rewrite app_nil_r.
    destruct (find_pfx_sound R _ _ _ _ _ _ Ef) as (S1 & _ & S3). cbn [rev app] in S1.
    split; [|split; [exact S1|intros q' w _ Hs; exact Hs]].
    constructor; [|intros p u Hin; destruct (Tg p u Hin) as [T1 T2]; split; [right; exact T1|exact T2]|exact Nd].
    intros q' w [E|Hin]; [inversion E; subst q' w; right; apply S3; reflexivity|apply Wf, Hin].
  - inversion H; subst d st1 q. cbn [new_decl flat_map app].
    destruct (uniq_fresh R st ns pfx) as [F1 F2]. set (p := uniq_prefix (resv_entries R ns ++ st) pfx) in *.
    assert (Hkeep : Keep O st ((Some p, ns) :: st)).
    { intros q' w _ Hs. apply std_push; [exact Hs|]. intros ->. exfalso. apply F1. apply (std_in_sprefs _ _ _ Hs). }
    assert (Hnew : std_prefix_ns ((Some p, ns) :: st) p = Some ns) by (cbn [std_prefix_ns]; rewrite beq_bytes_true; reflexivity).
    split; [|split; [exact Hnew|exact Hkeep]].
    constructor.
    + intros q' w [E|Hin]; [inversion E; subst q' w; right; exact F2|apply Wf, Hin].
    + intros p0 u Hin. apply in_app_or in Hin. destruct Hin as [Hin|[Hin|[]]].
      * destruct (Tg p0 u Hin) as [T1 T2]. split; [right; exact T1|apply (Hkeep p0 u T1 T2)].
      * inversion Hin; subst p0 u. split; [left; reflexivity|exact Hnew].
    + rewrite map_app. cbn [map fst]. apply NoDup_app_snoc; [exact Nd|].
      intro Hin. apply in_map_iff in Hin. destruct Hin as ([p0 u] & Ep & Hin). cbn [fst] in Ep. subst p0.
      destruct (Tg _ u Hin) as [_ T2]. apply F1. apply (std_in_sprefs _ _ _ T2).
Qed.

Lemma new_decl_app a b : new_decl (a ++ b) = new_decl a ++ new_decl b.
Proof. unfold new_decl. apply flat_map_app. Qed.

Lemma decl_mods_spec R O : Agree R -> incl (Rpairs R) O -> forall ms st tagd d st1,
  (forall m, In m ms -> In m R) -> TagInv R O st tagd -> decl_mods R st ms = (d, st1) ->
  TagInv R O st1 (tagd ++ new_decl d) /\ (forall m, In m ms -> std_prefix_ns st1 (qm_prefix m) = Some (qm_ns m)) /\ Keep O st st1.
Proof.
  intros HA HRO. induction ms as [|m r IH]; intros st tagd d st1 Hsub HT H; cbn [decl_mods] in H.
  - inversion H; subst. cbn [new_decl flat_map]. rewrite app_nil_r. split; [exact HT|]. split; [intros ? []|intros q w _ Hs; exact Hs].
  - destruct (print_ns R st (qm_ns m) (qm_prefix m) true) as [[d1 st2] q] eqn:E1.
    destruct (decl_mods R st2 r) as [d2 st3] eqn:E2. inversion H; subst d st1.
    destruct (print_ns_req R O st tagd m d1 st2 q HA (Hsub m (or_introl eq_refl)) HT HRO E1) as (T1 & S1 & K1).
    destruct (IH st2 _ d2 st3 (fun x Hx => Hsub x (or_intror Hx)) T1 E2) as (T2 & S2 & K2).
    rewrite new_decl_app, app_assoc. split; [exact T2|]. split.
    + intros x [->|Hx]; [|exact (S2 x Hx)]. apply K2; [|exact S1].
      apply HRO. unfold Rpairs. apply in_map_iff. exists x. split; [reflexivity|apply Hsub; left; reflexivity].
    + intros q' w Hin Hs. apply (K2 q' w Hin), (K1 q' w Hin), Hs.
Qed.

Lemma print_qmetas_spec R : Agree R -> forall ms O st tagd d st1,
  incl (Rpairs R) O -> (forall a m, In a ms -> In m (value_mods (qa_val a)) -> In m R) -> TagInv R O st tagd ->
  print_qmetas R st ms = (d, st1) ->
  exists O1, incl O O1 /\ TagInv R O1 st1 (tagd ++ new_decl d) /\ Keep O st st1 /\
    (forall a m, In a ms -> In m (value_mods (qa_val a)) -> std_prefix_ns st1 (qm_prefix m) = Some (qm_ns m)) /\
    (forall q nm val, In (PMeta q nm val) d ->
       exists a, In a ms /\ nm = qa_name a /\ val = render_value (qa_val a) /\ In (q, qm_ns (qa_mod a)) O1 /\
                 std_prefix_ns st1 q = Some (qm_ns (qa_mod a))).
Proof.
  intros HA. induction ms as [|a r IH]; intros O st tagd d st1 HRO Hsub HT H; cbn [print_qmetas] in H.
  - inversion H; subst. exists O. cbn [new_decl flat_map]. rewrite app_nil_r. split; [apply incl_refl|]. split; [exact HT|].
    split; [intros q w _ Hs; exact Hs|]. split; [intros ? ? []|intros ? ? ? []].
  - destruct (decl_mods R st (value_mods (qa_val a))) as [d1 st2] eqn:E1.
    destruct (print_ns R st2 (qm_ns (qa_mod a)) (qm_prefix (qa_mod a)) false) as [[d2 st3] q] eqn:E2.
    destruct (print_qmetas R st3 r) as [d3 st4] eqn:E3. inversion H; subst d st1.
    destruct (decl_mods_spec R O HA HRO _ st tagd d1 st2 (fun m Hm => Hsub a m (or_introl eq_refl) Hm) HT E1) as (T1 & S1 & K1).
    destruct (print_ns_nreq R O st2 _ _ _ d2 st3 q T1 E2) as (T2 & S2 & K2).
    assert (HRO2 : incl (Rpairs R) ((q, qm_ns (qa_mod a)) :: O)) by (intros x Hx; right; apply HRO, Hx).
    destruct (IH _ st3 _ d3 st4 HRO2 (fun a0 m Ha => Hsub a0 m (or_intror Ha)) T2 E3) as (O1 & I1 & T3 & K3 & S3 & P3).
    assert (HinR : forall m, In m R -> In (qm_prefix m, qm_ns m) O).
    { intros m Hm. apply HRO. unfold Rpairs. apply in_map_iff. exists m. split; [reflexivity|exact Hm]. }
    exists O1. split; [intros x Hx; apply I1; right; exact Hx|].
    assert (En : (tagd ++ new_decl d1) ++ new_decl d2 ++ new_decl d3 = tagd ++ new_decl (d1 ++ d2 ++ PMeta q (qa_name a) (render_value (qa_val a)) :: d3)).
    { rewrite !new_decl_app. change (new_decl (PMeta q (qa_name a) (render_value (qa_val a)) :: d3)) with (new_decl d3). rewrite <- !app_assoc. reflexivity. }
    split; [rewrite <- En, app_assoc; exact T3|].
    split; [intros q' w Hin Hs; apply (K3 q' w (or_intror Hin)), (K2 q' w Hin), (K1 q' w Hin), Hs|].
    split.
    + intros a0 m [<-|Ha] Hm; [|exact (S3 a0 m Ha Hm)].
      assert (HmR : In m R) by (apply (Hsub a m (or_introl eq_refl) Hm)).
      apply (K3 _ _ (or_intror (HinR m HmR))), (K2 _ _ (HinR m HmR)), (S1 m Hm).
    + intros q0 nm val Hin. apply in_app_or in Hin. destruct Hin as [Hin|Hin].
      { exfalso. clear -E1 Hin. revert st d1 st2 E1 Hin. induction (value_mods (qa_val a)) as [|m l IHl]; intros st d1 st2 E1 Hin; cbn [decl_mods] in E1.
        - inversion E1; subst. contradiction.
        - destruct (print_ns R st (qm_ns m) (qm_prefix m) true) as [[dd s2] qq] eqn:Ep. destruct (decl_mods R s2 l) as [d2 s3] eqn:Ed. inversion E1; subst.
          apply in_app_or in Hin. destruct Hin as [Hin|Hin]; [|exact (IHl _ _ _ Ed Hin)].
          unfold print_ns in Ep. destruct (find_pfx R [] st (qm_ns m) (qm_prefix m) true); inversion Ep; subst; [contradiction|]. destruct Hin as [Hin|[]]. discriminate Hin. }
      apply in_app_or in Hin. destruct Hin as [Hin|Hin].
      { exfalso. unfold print_ns in E2. destruct (find_pfx R [] st2 _ _ false); inversion E2; subst; [contradiction|]. destruct Hin as [Hin|[]]. discriminate Hin. }
      destruct Hin as [Hin|Hin].
      * inversion Hin; subst q0 nm val. exists a. split; [left; reflexivity|]. split; [reflexivity|]. split; [reflexivity|].
        split; [apply I1; left; reflexivity|]. apply (K3 _ _ (or_introl eq_refl)), S2.
      * destruct (P3 q0 nm val Hin) as (a0 & A1 & A2). exists a0. split; [right; exact A1|exact A2].
Qed.

(* ---- the module sets ---- *)
Lemma qmod_eqb_eq a b : qmod_eqb a b = true <-> a = b.
Proof.
  destruct a as [p1 n1], b as [p2 n2]. unfold qmod_eqb. cbn [qm_prefix qm_ns]. rewrite andb_true_iff, !beq_bytes_eq. split.
  - intros [-> ->]. reflexivity.
  - intro H. inversion H. split; reflexivity.
Qed.

Lemma add_mod_in acc m x : In x (add_mod acc m) <-> In x acc \/ x = m.
Proof.
  unfold add_mod. destruct (existsb (qmod_eqb m) acc) eqn:E.
  - apply existsb_exists in E. destruct E as (y & Hy & Ey). apply qmod_eqb_eq in Ey. subst y. split; [left; assumption|intros [H| ->]; assumption].
  - rewrite in_app_iff. cbn [In]. split; intros [H|H]; auto. destruct H as [<-|[]]. right. reflexivity.
Qed.

Lemma fold_add_in l : forall acc x, In x (fold_left add_mod l acc) <-> In x acc \/ In x l.
Proof.
  induction l as [|m l IH]; intros acc x; cbn [fold_left In]; [tauto|]. rewrite IH, add_mod_in. split; intro H.
  - destruct H as [[H|H]|H]; [left; exact H|right; left; symmetry; exact H|right; right; exact H].
  - destruct H as [H|[H|H]]; [left; left; exact H|left; right; symmetry; exact H|right; exact H].
Qed.

Lemma refs_in v m : In m (refs v) <-> In (Ref m) v.
Proof.
  unfold refs. rewrite in_flat_map. split.
  - intros ([b|m0] & H1 & H2); [contradiction|]. destruct H2 as [<-|[]]. exact H1.
  - intro H. exists (Ref m). split; [exact H|left; reflexivity].
Qed.

Lemma value_mods_in v m : In m (value_mods v) <-> In (Ref m) v.
Proof. unfold value_mods. rewrite fold_add_in, refs_in. cbn [In]. tauto. Qed.

Lemma tag_mods_in metas v m : In m (tag_mods metas v) <-> In (Ref m) v \/ exists a, In a metas /\ In (Ref m) (qa_val a).
Proof.
  unfold tag_mods. rewrite fold_add_in, in_app_iff, refs_in, in_flat_map. cbn [In]. split.
  - intros [[]|[H|(a & H1 & H2)]]; [left; exact H|right; exists a; split; [exact H1|apply refs_in, H2]].
  - intros [H|(a & H1 & H2)]; right; [left; exact H|right; exists a; split; [exact H1|apply refs_in, H2]].
Qed.

Lemma new_decl_sprefs d : map fst (new_decl d) = sprefs (decls_of d).
Proof.
  induction d as [|[[p|] u|q nm v] d IH]; [reflexivity| | |]; cbn [new_decl decls_of flat_map app map fst]; fold (new_decl d); fold (decls_of d).
  - change (sprefs ((Some p, u) :: decls_of d)) with (p :: sprefs (decls_of d)). rewrite IH. reflexivity.
  - change (sprefs ((None, u) :: decls_of d)) with (sprefs (decls_of d)). exact IH.
  - exact IH.
Qed.

(* ---- the law of one start tag ---- *)
(* the modules the values of the tag refer to do not need one prefix for two namespaces *)
Definition TagAgree (metas : list qmeta) (v : qvalue) : Prop := Agree (tag_mods metas v).

Theorem open_tag_law st ens metas v attrs st' :
  TagAgree metas v -> open_tag st ens metas v = (attrs, st') ->
  NoDup (sprefs (decls_of attrs)) /\
  (forall m, In (Ref m) v -> std_prefix_ns st' (qm_prefix m) = Some (qm_ns m)) /\
  (forall a m, In a metas -> In (Ref m) (qa_val a) -> std_prefix_ns st' (qm_prefix m) = Some (qm_ns m)) /\
  (forall q nm val, In (PMeta q nm val) attrs ->
     exists a, In a metas /\ nm = qa_name a /\ val = render_value (qa_val a) /\ std_prefix_ns st' q = Some (qm_ns (qa_mod a))).
Proof.
  intros HA H. unfold open_tag in H. set (R := tag_mods metas v) in *.
  destruct (print_ns_default st ens) as [d0 st0] eqn:E0. destruct (print_qmetas R st0 metas) as [d1 st1] eqn:E1.
  destruct (decl_mods R st1 (value_mods v)) as [d2 st2] eqn:E2. inversion H; subst attrs st'.
  assert (T0 : TagInv R (Rpairs R) st0 []).
  { constructor; [intros q w Hin; left; exact Hin|intros ? ? []|constructor]. }
  assert (Hsub1 : forall a m, In a metas -> In m (value_mods (qa_val a)) -> In m R).
  { intros a m Ha Hm. apply tag_mods_in. right. exists a. split; [exact Ha|apply value_mods_in, Hm]. }
  destruct (print_qmetas_spec R HA metas _ st0 [] d1 st1 (incl_refl _) Hsub1 T0 E1) as (O1 & I1 & T1 & K1 & S1 & P1).
  assert (Hsub2 : forall m, In m (value_mods v) -> In m R) by (intros m Hm; apply tag_mods_in; left; apply value_mods_in, Hm).
  destruct (decl_mods_spec R O1 HA I1 _ st1 _ d2 st2 Hsub2 T1 E2) as (T2 & S2 & K2).
  assert (HinR : forall m, In m R -> In (qm_prefix m, qm_ns m) O1).
  { intros m Hm. apply I1. unfold Rpairs. apply in_map_iff. exists m. split; [reflexivity|exact Hm]. }
  split; [|split; [|split]].
  - destruct T2 as [_ _ Nd]. cbn [app] in Nd. rewrite <- new_decl_app, new_decl_sprefs in Nd.
    rewrite !decls_of_app, !sprefs_app.
    assert (E : sprefs (decls_of d0) = []).
    { unfold print_ns_default in E0. destruct (ns_has_default st ens); inversion E0; subst; reflexivity. }
    rewrite E. cbn [app]. rewrite <- sprefs_app, <- decls_of_app. exact Nd.
  - intros m Hm. apply S2, value_mods_in, Hm.
  - intros a m Ha Hm. assert (Hv : In m (value_mods (qa_val a))) by (apply value_mods_in, Hm).
    apply (K2 _ _ (HinR m (Hsub1 a m Ha Hv))), (S1 a m Ha Hv).
  - intros q nm val Hin. apply in_app_or in Hin. destruct Hin as [Hin|Hin].
    { exfalso. unfold print_ns_default in E0. destruct (ns_has_default st ens); inversion E0; subst; [contradiction|]. destruct Hin as [Hin|[]]. discriminate Hin. }
    apply in_app_or in Hin. destruct Hin as [Hin|Hin].
    + destruct (P1 q nm val Hin) as (a & A1 & A2 & A3 & A4 & A5). exists a. split; [exact A1|]. split; [exact A2|]. split; [exact A3|]. apply (K2 _ _ A4 A5).
    + exfalso. clear -E2 Hin. revert st1 d2 st2 E2 Hin. induction (value_mods v) as [|m l IHl]; intros st1 d2 st2 E2 Hin; cbn [decl_mods] in E2.
      * inversion E2; subst. contradiction.
      * destruct (print_ns R st1 (qm_ns m) (qm_prefix m) true) as [[dd s2] qq] eqn:Ep. destruct (decl_mods R s2 l) as [d3 s3] eqn:Ed. inversion E2; subst.
        apply in_app_or in Hin. destruct Hin as [Hin|Hin]; [|exact (IHl _ _ _ Ed Hin)].
        unfold print_ns in Ep. destruct (find_pfx R [] st1 (qm_ns m) (qm_prefix m) true); inversion Ep; subst; [contradiction|]. destruct Hin as [Hin|[]]. discriminate Hin.
Qed.

(* modules with pairwise distinct prefixes never need one prefix for two namespaces *)
Lemma distinct_prefixes_agree (R : list qmod) :
  (forall m1 m2, In m1 R -> In m2 R -> qm_prefix m1 = qm_prefix m2 -> m1 = m2) -> Agree R.
Proof. intros H m1 m2 H1 H2 Hp. rewrite (H m1 m2 H1 H2 Hp). reflexivity. Qed.

(* ---- element trees: the definitions of a start tag are in scope for the descendants ---- *)
Inductive qelem := QE (ens : bytes) (metas : list qmeta) (v : qvalue) (ch : list qelem).

Section QInd.
  Variable P : qelem -> Prop.
  Hypothesis H : forall ens metas v ch, Forall P ch -> P (QE ens metas v ch).
  Fixpoint qelem_ind' (e : qelem) : P e :=
    match e with
    | QE a b c ch => H a b c ch ((fix go (l : list qelem) : Forall P l :=
                                   match l with [] => Forall_nil _ | x :: r => Forall_cons _ (qelem_ind' x) (go r) end) ch)
    end.
End QInd.

(* the law of one start tag, as a predicate on what open_tag returns *)
Definition TagLaw (metas : list qmeta) (v : qvalue) (attrs : list pattr) (st' : nsstack) : Prop :=
  NoDup (sprefs (decls_of attrs)) /\
  (forall m, In (Ref m) v -> std_prefix_ns st' (qm_prefix m) = Some (qm_ns m)) /\
  (forall a m, In a metas -> In (Ref m) (qa_val a) -> std_prefix_ns st' (qm_prefix m) = Some (qm_ns m)) /\
  (forall q nm val, In (PMeta q nm val) attrs ->
     exists a, In a metas /\ nm = qa_name a /\ val = render_value (qa_val a) /\ std_prefix_ns st' q = Some (qm_ns (qa_mod a))).

Fixpoint QTagsOK (st : nsstack) (e : qelem) {struct e} : Prop :=
  match e with
  | QE ens metas v ch =>
      let '(attrs, st') := open_tag st ens metas v in
      TagLaw metas v attrs st' /\
      (fix all (l : list qelem) : Prop := match l with [] => True | c :: l' => QTagsOK st' c /\ all l' end) ch
  end.

Fixpoint QAgree (e : qelem) {struct e} : Prop :=
  match e with
  | QE ens metas v ch =>
      TagAgree metas v /\ (fix all (l : list qelem) : Prop := match l with [] => True | c :: l' => QAgree c /\ all l' end) ch
  end.

Theorem qtags_ok e : forall st, QAgree e -> QTagsOK st e.
Proof.
  induction e as [ens metas v ch IH] using qelem_ind'. intros st [HA Hch]. cbn [QTagsOK].
  destruct (open_tag st ens metas v) as [attrs st'] eqn:E. split; [exact (open_tag_law st ens metas v attrs st' HA E)|].
  clear E. induction ch as [|c l IHl]; [exact I|]. inversion IH as [|? ? Hc Hl]; subst. destruct Hch as [H1 H2].
  split; [exact (Hc st' H1)|exact (IHl Hl H2)].
Qed.

(* ---- regression cases and the limit ---- *)
Definition b_p : bytes := [112].  Definition b_p1 : bytes := [112; 49].  Definition b_p2 : bytes := [112; 50].
Definition ns_top : bytes := [117; 58; 116].  Definition ns_a : bytes := [117; 58; 97].  Definition ns_b : bytes := [117; 58; 98].
Definition ns_v : bytes := [117; 58; 118].

(* the shape of the seeded change C12-3: an ancestor defined p for the module of its metadata, a leaf below holds a value
   of ANOTHER module with the same prefix p: p is defined again for the value (the text of the value says p) *)
Example qn_value_prefix_redefined :
  open_tag [(Some b_p, ns_a); (None, ns_top)] ns_top [] [Ref (mk_qmod b_p ns_b); Lit [120]] =
    ([PDecl (Some b_p) ns_b], [(Some b_p, ns_b); (Some b_p, ns_a); (None, ns_top)]).
Proof. vm_compute. reflexivity. Qed.

(* the shape of the seeded change C12-8: p is taken in the scope, the value of the node needs p1 (the REAL prefix of its
   module): the attribute of module a (suggested prefix p) must get neither p nor the reserved p1 *)
Example qn_generated_prefix_avoids_reserved :
  open_tag [(Some b_p, ns_b); (None, ns_top)] ns_top [mk_qmeta (mk_qmod b_p ns_a) [120] [Lit [49]]] [Ref (mk_qmod b_p1 ns_v)] =
    ([PDecl (Some b_p2) ns_a; PMeta b_p2 [120] [49]; PDecl (Some b_p1) ns_v],
     [(Some b_p1, ns_v); (Some b_p2, ns_a); (Some b_p, ns_b); (None, ns_top)]).
Proof. vm_compute. reflexivity. Qed.

(* a definition hidden by a nested one is not reused (p -> a is hidden by p -> b), and the same namespace needed by the
   metadata and by the value of one tag is defined once (the former finding xml-value-ns-redeclared) *)
Example qn_hidden_definition_not_reused :
  open_tag [(Some b_p, ns_b); (Some b_p, ns_a); (None, ns_top)] ns_top [mk_qmeta (mk_qmod b_p ns_a) [120] [Lit [49]]] [] =
    ([PDecl (Some b_p1) ns_a; PMeta b_p1 [120] [49]], [(Some b_p1, ns_a); (Some b_p, ns_b); (Some b_p, ns_a); (None, ns_top)]).
Proof. vm_compute. reflexivity. Qed.
Example qn_value_ns_defined_once :
  open_tag [(None, ns_top)] ns_top [mk_qmeta (mk_qmod b_p ns_a) [120] [Lit [49]]] [Ref (mk_qmod b_p ns_a); Lit [111]] =
    ([PDecl (Some b_p) ns_a; PMeta b_p [120] [49]], [(Some b_p, ns_a); (None, ns_top)]).
Proof. vm_compute. reflexivity. Qed.

(* the hypothesis TagAgree cannot be dropped: a value that refers to two modules sharing the prefix p (listed finding
   xml-same-prefix-value-clash) - p is defined twice in the tag and the first reference resolves to the wrong namespace *)
Example qn_same_prefix_clash_refuted :
  let v := [Ref (mk_qmod b_p ns_a); Lit [47]; Ref (mk_qmod b_p ns_b)] in
  let '(attrs, st') := open_tag [(None, ns_top)] ns_top [] v in
  attrs = [PDecl (Some b_p) ns_a; PDecl (Some b_p) ns_b] /\ ~ NoDup (sprefs (decls_of attrs)) /\
  std_prefix_ns st' b_p = Some ns_b /\ ~ TagAgree [] v.
Proof.
  vm_compute. split; [reflexivity|]. split; [|split; [reflexivity|]].
  - intro H. inversion H as [|? ? Hn _]; subst. apply Hn. left. reflexivity.
  - intro H. specialize (H (mk_qmod b_p ns_a) (mk_qmod b_p ns_b) (or_introl eq_refl) (or_intror (or_introl eq_refl)) eq_refl). discriminate H.
Qed.
