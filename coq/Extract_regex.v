(* Extract_regex.v - extraction of slice regex (property C18) to coq/model_regex.ml *)
From Coq Require Extraction ExtrOcamlBasic.
From LY Require Import Base Xsd XsdParse Rewrite.
Extraction Language OCaml.
Extraction "model_regex.ml"
  N.add N.mul N.div N.modulo N.sub Z.add Z.mul Z.opp Z.of_N Z.abs_N Z.sub Z.ltb
  Rewrite.rewrite Rewrite.validate_patterns Rewrite.chain_patterns Rewrite.chain_type Rewrite.validate_string XsdParse.utf8_dec XsdParse.parse Xsd.matches XsdParse.xsd_match.
