(* IidCanonP.v — proofs about IidCanon.v: reading back the printed canonical path. *)
From LY Require Import Base TypesMisc TypesMiscP IntLexP PathQuote PathQuoteP IidCanon.
From Coq Require Import ZifyBool ZifyNat ZifyN.
Local Open Scope N_scope.

Definition stop_ok (t : bytes) : bool := match t with [] => true | c :: _ => negb (is_name_byte c) end.

Lemma span_name_stop n t : forall acc,
  forallb is_name_byte n = true -> stop_ok t = true -> span_name (n ++ t) acc = (rev acc ++ n, t).
Proof.
  induction n as [|x n IH]; intros acc Hn Ht; cbn [app span_name].
  - rewrite app_nil_r. destruct t as [|c t]; [reflexivity|]. cbn [stop_ok] in Ht. apply negb_true_iff in Ht.
    cbn [span_name]. rewrite Ht. reflexivity.
  - cbn [forallb] in Hn. apply andb_true_iff in Hn. destruct Hn as [Hx Hn]. rewrite Hx.
    rewrite (IH (x :: acc) Hn Ht). cbn [rev]. rewrite <- app_assoc. reflexivity.
Qed.

Definition pred_wf (p : ipred) : Prop :=
  match p with
  | PKey k v => name_ok k = true /\ one_quote_kind v = true
  | PLeaf v => one_quote_kind v = true
  | PPos _ => True
  end.
Definition seg_wf (s : iseg) : Prop :=
  let '(m, n, ps) := s in name_ok m = true /\ name_ok n = true /\ Forall pred_wf ps.

(* every printed predicate starts with the bracket and a second byte *)
Lemma print_pred_head p : pred_wf p -> exists c t, print_pred p = 91 :: c :: t.
Proof.
  destruct p as [k v|v|n]; cbn [print_pred pred_wf].
  - intros [Hk _]. destruct k as [|c k]; [discriminate|]. exists c. eexists. unfold list_pred. cbn [app]. reflexivity.
  - intros _. exists 46. eexists. unfold leaflist_pred. cbn [app]. reflexivity.
  - intros _. pose proof (N_to_dec_nonempty n) as Hne. destruct (N_to_dec n) as [|c d] eqn:E; [congruence|].
    exists c. eexists. cbn [app]. reflexivity.
Qed.

Lemma name_ok_first_not_digit c k : name_ok (c :: k) = true -> is_digit c = false.
Proof.
  cbn [name_ok]. intro H. apply andb_true_iff in H. destruct H as [H _]. unfold is_name_start in H. unfold is_digit.
  destruct ((48 <=? c) && (c <=? 57)) eqn:E; [|reflexivity]. lia.
Qed.

(* what may follow the predicates: nothing, or a byte that is not the bracket *)
Definition no_bracket (rest : bytes) : Prop := match rest with [] => True | a :: _ => (a =? 91) = false end.

Lemma parse_preds_nil fuel rest : no_bracket rest -> parse_preds (S fuel) rest = Some ([], rest).
Proof.
  intro H. cbn [parse_preds]. destruct rest as [|a [|b r]]; try reflexivity. cbn [no_bracket] in H. rewrite H. reflexivity.
Qed.

Lemma parse_preds_print ps : forall fuel rest,
  Forall pred_wf ps -> (length ps < fuel)%nat -> no_bracket rest ->
  parse_preds fuel (concat (map print_pred ps) ++ rest) = Some (ps, rest).
Proof.
  induction ps as [|p ps IH]; intros fuel rest Hwf Hf Hrest.
  - destruct fuel as [|f]; [cbn in Hf; lia|]. cbn [map concat app]. apply parse_preds_nil. exact Hrest.
  - inversion Hwf as [|? ? Hp Hps]; subst. destruct fuel as [|f]; [cbn in Hf; lia|]. cbn [length] in Hf.
    cbn [map concat]. rewrite <- app_assoc.
    specialize (IH f rest Hps ltac:(lia) Hrest).
    destruct p as [k v|v|n]; cbn [print_pred pred_wf] in *.
    + destruct Hp as [Hk Hv]. destruct k as [|c k]; [discriminate|].
      pose proof (parse_list_pred path_literal (c :: k) v (concat (map print_pred ps) ++ rest) path_literal_quoted Hk Hv) as E.
      unfold list_pred in *. cbn [app] in *. cbn [parse_preds]. rewrite N.eqb_refl. cbn [negb].
      rewrite (name_ok_first_not_digit c k Hk). rewrite E, IH. reflexivity.
    + pose proof (parse_leaflist_pred path_literal v (concat (map print_pred ps) ++ rest) path_literal_quoted Hp) as E.
      unfold leaflist_pred in *. cbn [app] in *. cbn [parse_preds]. rewrite N.eqb_refl. cbn [negb].
      change (is_digit 46) with false. cbn iota. rewrite E, IH. reflexivity.
    + pose proof (N_to_dec_nonempty n) as Hne. pose proof (N_to_dec_digits n) as Hd.
      destruct (N_to_dec n) as [|c d] eqn:En; [congruence|]. cbn [app parse_preds]. rewrite N.eqb_refl. cbn [negb].
      pose proof Hd as Hd'. cbn [forallb] in Hd'. apply andb_true_iff in Hd'. destruct Hd' as [Hc _]. rewrite Hc.
      unfold parse_pos. rewrite <- app_assoc.
      change (c :: d ++ [93] ++ concat (map print_pred ps) ++ rest) with ((c :: d) ++ 93 :: concat (map print_pred ps) ++ rest).
      rewrite span_digits_app; [|exact Hd|cbn; reflexivity].
      rewrite N.eqb_refl. rewrite <- En, N_to_dec_value. rewrite IH. reflexivity.
Qed.

Lemma concat_preds_length ps : Forall pred_wf ps -> (length ps <= length (concat (map print_pred ps)))%nat.
Proof.
  intro H. induction H as [|p ps Hp _ IH]; cbn [map concat length]; [lia|]. rewrite app_length.
  destruct (print_pred_head p Hp) as [c [t E]]. rewrite E. cbn [length]. lia.
Qed.

Lemma print_segs_no_bracket prev p : no_bracket (print_segs prev p).
Proof. destruct p as [|[[m n] ps] r]; cbn [print_segs no_bracket]; [exact I|reflexivity]. Qed.

Lemma parse_segs_print p : forall fuel prev,
  Forall seg_wf p -> (length p < fuel)%nat -> parse_segs fuel prev (print_segs prev p) = Some p.
Proof.
  induction p as [|[[m n] ps] r IH]; intros fuel prev Hwf Hf.
  - destruct fuel; [cbn in Hf; lia|]. reflexivity.
  - inversion Hwf as [|? ? Hs Hr]; subst. unfold seg_wf in Hs. destruct Hs as [Hm [Hn Hps]].
    destruct fuel as [|f]; [cbn in Hf; lia|]. cbn [length] in Hf.
    cbn [print_segs parse_segs]. rewrite N.eqb_refl. cbn [negb].
    set (tail := concat (map print_pred ps) ++ print_segs m r).
    assert (Htail : stop_ok tail = true /\ match tail with c :: _ => (c =? 58) = false | [] => True end).
    { unfold tail. destruct ps as [|p0 ps0].
      - cbn [map concat app]. destruct r as [|[[m2 n2] ps2] r2]; cbn [print_segs]; split; reflexivity || exact I.
      - inversion Hps as [|? ? Hp0 _]; subst. destruct (print_pred_head p0 Hp0) as [c [t E]]. cbn [map concat]. rewrite E.
        split; reflexivity. }
    destruct Htail as [Hstop H58].
    assert (Hpp : parse_preds (S (length tail)) tail = Some (ps, print_segs m r)).
    { unfold tail. apply parse_preds_print; [exact Hps| |apply print_segs_no_bracket].
      rewrite app_length. pose proof (concat_preds_length ps Hps). lia. }
    specialize (IH f m Hr ltac:(lia)).
    destruct (beq_bytes m prev) eqn:Hmp.
    + apply beq_bytes_eq in Hmp. subst prev.
      rewrite (span_name_stop n tail [] (name_ok_bytes n Hn) Hstop). cbn [rev app].
      destruct tail as [|c t] eqn:Et.
      * rewrite Hm, Hn. cbn [andb]. rewrite Hpp, IH. reflexivity.
      * rewrite H58. rewrite Hm, Hn. cbn [andb]. rewrite Hpp, IH. reflexivity.
    + rewrite <- app_assoc. cbn [app].
      rewrite (span_name_stop m (58 :: n ++ tail) [] (name_ok_bytes m Hm) eq_refl). cbn [rev app].
      rewrite N.eqb_refl.
      rewrite (span_name_stop n tail [] (name_ok_bytes n Hn) Hstop). cbn [rev app].
      rewrite Hm, Hn. cbn [andb]. rewrite Hpp, IH. reflexivity.
Qed.

Lemma print_segs_length prev p : Forall seg_wf p -> (length p <= length (print_segs prev p))%nat.
Proof.
  intro H. revert prev. induction H as [|[[m n] ps] r _ _ IH]; intro prev; cbn [print_segs length]; [lia|].
  rewrite !app_length. specialize (IH m). lia.
Qed.

(* reading the printed canonical string gives the path back *)
Theorem iid_parse_print p : Forall seg_wf p -> iid_parse (iid_print p) = Some p.
Proof.
  intro H. unfold iid_parse, iid_print. apply parse_segs_print; [exact H|].
  pose proof (print_segs_length [] p H). lia.
Qed.

(* canonicalisation is idempotent: printing what was read from a printed path gives the same string *)
Theorem iid_canon_idempotent p :
  Forall seg_wf p ->
  match iid_parse (iid_print p) with Some q => iid_print q = iid_print p | None => False end.
Proof. intro H. rewrite (iid_parse_print p H). reflexivity. Qed.

(* the printer is injective on well-formed paths: equal canonical strings, equal paths *)
Theorem iid_print_inj p q : Forall seg_wf p -> Forall seg_wf q -> iid_print p = iid_print q -> p = q.
Proof.
  intros Hp Hq E. pose proof (iid_parse_print p Hp) as E1. rewrite E, (iid_parse_print q Hq) in E1. congruence.
Qed.

(* regression of seeded change C03-8 (quote variable not reset): /m:l[a=it's][b=say hi in double quotes]/v.
   The as-coded printer round-trips; the hoisted-quote variant writes the second value between double quotes although
   it holds one, and the result cannot be read back *)
Definition c03_8_path : list iseg :=
  [([109], [108], [PKey [97] [105;116;39;115]; PKey [98] [115;97;121;32;34;104;105;34]]); ([109], [118], [])].
Definition c03_8_hoisted : bytes :=
  [47;109;58;108] ++ print_preds_hoisted 39 [PKey [97] [105;116;39;115]; PKey [98] [115;97;121;32;34;104;105;34]] ++ [47;118].
Lemma c03_8_regression :
  Forall seg_wf c03_8_path /\
  iid_parse (iid_print c03_8_path) = Some c03_8_path /\
  c03_8_hoisted <> iid_print c03_8_path /\ iid_parse c03_8_hoisted <> Some c03_8_path.
Proof.
  split; [repeat constructor|]. split; [vm_compute; reflexivity|]. split; vm_compute; discriminate.
Qed.
