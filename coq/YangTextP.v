(* YangTextP.v — proofs about YangText: what ypr_text()/ypr_encode() print, read_qstring() reads back. *)
From LY Require Import Base Utf8 YangText.
From Coq Require Import ZifyBool ZifyNat ZifyN.
Local Open Scope N_scope.

(* ====================================================================================== *)
(* characters                                                                              *)
(* ====================================================================================== *)

(* bytes with no special meaning for the printer or the lexer *)
Definition plain (b : N) : Prop :=
  b <> 9 /\ b <> 10 /\ b <> 13 /\ b <> 32 /\ b <> 34 /\ b <> 39 /\ b <> 92.

Ltac spec_contra H := intros ->; vm_compute in H; discriminate H.
Ltac plain_from H := unfold plain; repeat split; spec_contra H.

Lemma cont_plain b : is_cont b = true -> plain b.
Proof. unfold is_cont. intro H. plain_from H. Qed.

Definition store_ok (ch : bytes) : Prop := forall r, store_char (ch ++ r) = Some (ch, r).

(* one character as the lexer stores it: some bytes that are all plain, or a single byte *)
Definition ychar (ch : bytes) : Prop :=
  store_ok ch /\ ch <> [] /\ (Forall plain ch \/ exists a, ch = [a]).

Lemma store_char_inv s ch r :
  store_char s = Some (ch, r) -> s = ch ++ r /\ ychar ch.
Proof.
  unfold store_char, ychar, store_ok, getutf8. destruct s as [|a s]; [cbn; discriminate|].
  cbn [rd0 nth].
  destruct (N.land a 128 =? 0) eqn:H1.
  { match goal with |- context[if ?c then None else _] => destruct c eqn:Hc end; [discriminate|].
    destruct (is_yangutf8char a) eqn:Hy; [|discriminate].
    intro E; injection E as <- <-. cbn [firstn skipn app].
    split; [reflexivity|]. split; [|split; [discriminate|right; exists a; reflexivity]].
    intro r'. unfold store_char, getutf8. cbn [app rd0 nth]. rewrite H1, Hc, Hy. reflexivity. }
  assert (Pa : (N.land a 224 =? 192) = true \/ (N.land a 240 =? 224) = true \/ (N.land a 248 =? 240) = true -> plain a).
  { intros [H|[H|H]]; plain_from H. }
  destruct (N.land a 224 =? 192) eqn:H2.
  { destruct s as [|b s]; [cbn; discriminate|]. cbn [rd0 nth].
    destruct (is_cont b) eqn:Hb; cbn [negb]; [|discriminate].
    match goal with |- context[if ?c then None else _] => destruct c eqn:Hv end; [discriminate|].
    match goal with |- context[is_yangutf8char ?v] => destruct (is_yangutf8char v) eqn:Hy end; [|discriminate].
    intro E; injection E as <- <-. cbn [firstn skipn app].
    split; [reflexivity|]. split; [|split; [discriminate|left]].
    - intro r'. unfold store_char, getutf8. cbn [app rd0 nth]. rewrite H1, H2, Hb. cbn [negb]. rewrite Hv, Hy. reflexivity.
    - constructor; [apply Pa; auto|]. repeat (constructor; [apply cont_plain; assumption|]). constructor. }
  destruct (N.land a 240 =? 224) eqn:H3.
  { destruct s as [|b s]; [cbn; discriminate|]. cbn [rd0 nth].
    destruct (is_cont b) eqn:Hb; cbn [negb]; [|discriminate].
    destruct s as [|c s]; [cbn; discriminate|]. cbn [rd0 nth].
    destruct (is_cont c) eqn:Hc; cbn [negb]; [|discriminate].
    match goal with |- context[if ?c then None else _] => destruct c eqn:Hv end; [discriminate|].
    match goal with |- context[is_yangutf8char ?v] => destruct (is_yangutf8char v) eqn:Hy end; [|discriminate].
    intro E; injection E as <- <-. cbn [firstn skipn app].
    split; [reflexivity|]. split; [|split; [discriminate|left]].
    - intro r'. unfold store_char, getutf8. cbn [app rd0 nth]. rewrite H1, H2, H3, Hb, Hc. cbn [negb]. rewrite Hv, Hy. reflexivity.
    - constructor; [apply Pa; auto|]. repeat (constructor; [apply cont_plain; assumption|]). constructor. }
  destruct (N.land a 248 =? 240) eqn:H4; [|discriminate].
  destruct s as [|b s]; [cbn; discriminate|]. cbn [rd0 nth].
  destruct (is_cont b) eqn:Hb; cbn [negb]; [|discriminate].
  destruct s as [|c s]; [cbn; discriminate|]. cbn [rd0 nth].
  destruct (is_cont c) eqn:Hc; cbn [negb]; [|discriminate].
  destruct s as [|d s]; [cbn; discriminate|]. cbn [rd0 nth].
  destruct (is_cont d) eqn:Hd; cbn [negb]; [|discriminate].
  match goal with |- context[if ?c then None else _] => destruct c eqn:Hv end; [discriminate|].
  match goal with |- context[is_yangutf8char ?v] => destruct (is_yangutf8char v) eqn:Hy end; [|discriminate].
  intro E; injection E as <- <-. cbn [firstn skipn app].
  split; [reflexivity|]. split; [|split; [discriminate|left]].
  - intro r'. unfold store_char, getutf8. cbn [app rd0 nth]. rewrite H1, H2, H3, H4, Hb, Hc, Hd. cbn [negb]. rewrite Hv, Hy. reflexivity.
  - constructor; [apply Pa; auto|]. repeat (constructor; [apply cont_plain; assumption|]). constructor.
Qed.

Inductive ychars : bytes -> Prop :=
| yc_nil : ychars []
| yc_cons ch s : ychar ch -> ychars s -> ychars (ch ++ s).

Lemma ylexable_f_ychars fuel : forall s, ylexable_f fuel s = true -> ychars s.
Proof.
  induction fuel as [|f IH]; intros s H; [discriminate|].
  cbn [ylexable_f] in H. destruct s as [|a s]; [constructor|].
  destruct (store_char (a :: s)) as [[ch r]|] eqn:E; [|discriminate].
  destruct (store_char_inv _ _ _ E) as [-> Hc].
  constructor; [exact Hc|apply IH; exact H].
Qed.
Lemma ylexable_ychars s : ylexable s = true -> ychars s.
Proof. apply ylexable_f_ychars. Qed.

(* ====================================================================================== *)
(* the hypotheses on byte level                                                            *)
(* ====================================================================================== *)

Lemma no_byte_cons b x s : no_byte b (x :: s) = true <-> x <> b /\ no_byte b s = true.
Proof.
  unfold no_byte, has_byte. cbn [existsb]. rewrite negb_orb, andb_true_iff, negb_true_iff, N.eqb_neq.
  split; intros [H1 H2]; split; auto.
Qed.
Lemma no_byte_app b c s : no_byte b (c ++ s) = true -> no_byte b c = true /\ no_byte b s = true.
Proof.
  induction c as [|x c IH]; intro H; [split; [reflexivity|exact H]|].
  cbn [app] in H. apply no_byte_cons in H. destruct H as [H1 H2]. destruct (IH H2) as [H3 H4].
  split; [apply no_byte_cons; auto|exact H4].
Qed.
Lemma no_byte_Forall b s : no_byte b s = true -> Forall (fun x => x <> b) s.
Proof.
  induction s as [|x s IH]; intro H; constructor; apply no_byte_cons in H; destruct H; auto.
Qed.

Lemma no_pair_tail a b x s : no_pair a b (x :: s) = true -> no_pair a b s = true.
Proof. cbn [no_pair]. destruct s as [|y s]; [reflexivity|]. intro H. apply andb_true_iff in H. apply H. Qed.
Lemma no_pair_app a b c s : no_pair a b (c ++ s) = true -> no_pair a b s = true.
Proof. induction c as [|x c IH]; intro H; [exact H|]. apply IH. exact (no_pair_tail _ _ _ _ H). Qed.
Definition starts (b : N) (s : bytes) : Prop := exists t, s = b :: t.
Lemma no_pair_starts a b s : no_pair a b (a :: s) = true -> ~ starts b s.
Proof.
  intros H [t ->]. cbn [no_pair] in H. rewrite !N.eqb_refl in H. discriminate H.
Qed.

(* ====================================================================================== *)
(* what the printer prints, byte by byte                                                   *)
(* ====================================================================================== *)

Lemma esc_byte_plain b : b <> 9 -> b <> 10 -> b <> 34 -> b <> 92 -> esc_byte b = [b].
Proof.
  intros H9 H10 H34 H92. unfold esc_byte.
  apply N.eqb_neq in H9, H10, H34, H92. rewrite H9, H10, H34, H92. reflexivity.
Qed.

Lemma ypr_encode_app a b : ypr_encode (a ++ b) = ypr_encode a ++ ypr_encode b.
Proof. apply flat_map_app. Qed.

(* the double-quoted text between the quotes. [p]: the byte before is a blank of the same line (nl[-1]);
   [sl]: LYS_YPR_TEXT_SINGLELINE *)
Definition cont_indent (ind s : bytes) : bytes := match s with 10 :: _ => [] | _ => ind ++ [32] end.
Fixpoint body_dq (sl : bool) (ind : bytes) (p : bool) (s : bytes) : bytes :=
  match s with
  | [] => []
  | c :: s' =>
      if c =? 10 then
        if p || (sl && head_blank s') then [92; 110] ++ body_dq sl ind false s'
        else [10] ++ cont_indent ind s' ++ body_dq sl ind false s'
      else esc_byte c ++ body_dq sl ind (c =? 32) s'
  end.

Lemma head_blank_cons c t : head_blank (c :: t) = (c =? 32).
Proof.
  destruct (N.eqb_spec c 32) as [->|H]; [reflexivity|].
  destruct c as [|q]; [reflexivity|].
  repeat (destruct q as [q|q|]; try reflexivity). congruence.
Qed.
Lemma head_blank_starts s : head_blank s = false -> ~ starts 32 s.
Proof. intros H [t ->]. discriminate H. Qed.

Lemma text_lines_dq sl ind s : forall cur,
  text_lines ypr_encode ind true sl s cur = ypr_encode (rev cur) ++ body_dq sl ind (head_blank cur) s.
Proof.
  induction s as [|c s IH]; intro cur; cbn [text_lines body_dq].
  - rewrite app_nil_r. reflexivity.
  - destruct (c =? 10).
    + cbn [andb]. destruct (head_blank cur || (sl && head_blank s)); rewrite (IH []); reflexivity.
    + rewrite (IH (c :: cur)). cbn [rev]. rewrite ypr_encode_app. cbn [ypr_encode flat_map].
      rewrite app_nil_r, <- app_assoc, head_blank_cons. reflexivity.
Qed.

Lemma body_dq_nl_esc sl ind p s :
  p || (sl && head_blank s) = true -> body_dq sl ind p (10 :: s) = 92 :: 110 :: body_dq sl ind false s.
Proof. intro H. cbn [body_dq]. change (10 =? 10) with true. cbn iota. rewrite H. reflexivity. Qed.
Lemma body_dq_nl_real sl ind p s :
  p || (sl && head_blank s) = false ->
  body_dq sl ind p (10 :: s) = 10 :: cont_indent ind s ++ body_dq sl ind false s.
Proof. intro H. cbn [body_dq]. change (10 =? 10) with true. cbn iota. rewrite H. reflexivity. Qed.
Lemma body_dq_other sl ind p a s :
  a <> 10 -> body_dq sl ind p (a :: s) = esc_byte a ++ body_dq sl ind (a =? 32) s.
Proof. intro H. apply N.eqb_neq in H. cbn [body_dq]. rewrite H. reflexivity. Qed.

Lemma cont_indent_other n x s : x <> 10 -> cont_indent (repeat 32 n) (x :: s) = repeat 32 (n + 1).
Proof.
  intro H. rewrite repeat_app. cbn [repeat]. unfold cont_indent.
  destruct x as [|q]; [reflexivity|].
  repeat (destruct q as [q|q|]; try reflexivity). congruence.
Qed.
Lemma cont_indent_nil n : cont_indent (repeat 32 n) [] = repeat 32 (n + 1).
Proof. rewrite repeat_app. reflexivity. Qed.

Definition dqcopy (b : N) : Prop := b <> 9 /\ b <> 10 /\ b <> 32 /\ b <> 34 /\ b <> 92.

Lemma body_dq_plain sl ind ch s :
  Forall dqcopy ch -> forall p,
  body_dq sl ind p (ch ++ s) = ch ++ body_dq sl ind (match ch with [] => p | _ => false end) s.
Proof.
  induction 1 as [|b ch (H9 & H10 & H32 & H34 & H92) _ IH]; intro p; [reflexivity|].
  cbn [app]. rewrite body_dq_other, IH, esc_byte_plain by assumption.
  apply N.eqb_neq in H32. rewrite H32. destruct ch; reflexivity.
Qed.
Lemma body_dq_plain1 sl ind ch s p :
  Forall dqcopy ch -> ch <> [] -> body_dq sl ind p (ch ++ s) = ch ++ body_dq sl ind false s.
Proof. intros H Hne. rewrite body_dq_plain by exact H. destruct ch; [congruence|reflexivity]. Qed.

(* without a newline there is one line *)
Lemma text_lines_one enc ind dq sl s : forall cur,
  no_byte 10 s = true -> text_lines enc ind dq sl s cur = enc (rev cur ++ s).
Proof.
  induction s as [|c s IH]; intros cur H; cbn [text_lines].
  - rewrite app_nil_r. reflexivity.
  - apply no_byte_cons in H. destruct H as [H1 H2]. apply N.eqb_neq in H1. rewrite H1.
    rewrite (IH (c :: cur) H2). cbn [rev]. rewrite <- app_assoc. reflexivity.
Qed.

Lemma sq_line_chunk ind ch s :
  Forall (fun b => b <> 39) ch -> ch <> [] ->
  sq_line ind false (ch ++ s) = ch ++ sq_line ind false s /\
  sq_line ind true (ch ++ s) = sq_close ind ++ ch ++ sq_line ind false s.
Proof.
  intros H Hne.
  assert (A : sq_line ind false (ch ++ s) = ch ++ sq_line ind false s).
  { clear Hne. induction H as [|b ch Hb _ IH]; [reflexivity|].
    cbn [app sq_line]. apply N.eqb_neq in Hb. rewrite Hb, IH. reflexivity. }
  split; [exact A|].
  destruct ch as [|b ch]; [congruence|]. inversion H as [|? ? Hb Hch]; subst.
  cbn [app sq_line]. apply N.eqb_neq in Hb as E. rewrite E.
  assert (B : sq_line ind false (ch ++ s) = ch ++ sq_line ind false s).
  { clear - Hch. induction Hch as [|c ch Hc _ IH]; [reflexivity|].
    cbn [app sq_line]. apply N.eqb_neq in Hc. rewrite Hc, IH. reflexivity. }
  rewrite B. reflexivity.
Qed.

(* ====================================================================================== *)
(* steps of the lexer                                                                      *)
(* ====================================================================================== *)

Definition dqplain (b : N) : Prop := b <> 9 /\ b <> 10 /\ b <> 13 /\ b <> 32 /\ b <> 34 /\ b <> 92.
Lemma plain_dqplain b : plain b -> dqplain b.
Proof. unfold plain, dqplain. tauto. Qed.

Lemma dq_step_char f bi ci tw ch r acc :
  store_ok ch -> ch <> [] -> dqplain (hd 0 ch) ->
  lex_f (S f) QS_DQ bi ci tw (ch ++ r) acc = lex_f f QS_DQ bi bi O r (rev_append ch acc).
Proof.
  intros Hs Hne Hp. destruct ch as [|x ch]; [congruence|]. cbn [hd] in Hp.
  destruct Hp as (H9 & H10 & H13 & H32 & H34 & H92).
  apply N.eqb_neq in H9, H10, H13, H32, H34, H92.
  pose proof (Hs r) as E. cbn [app] in E |- *. cbn [lex_f].
  rewrite H34, H92, H32, H9, H13, H10, E. reflexivity.
Qed.

Lemma dq_step_space_store f bi tw r acc :
  lex_f (S f) QS_DQ bi bi tw (32 :: r) acc = lex_f f QS_DQ bi bi (S tw) r (32 :: acc).
Proof. cbn [lex_f]. change (32 =? 34) with false. change (32 =? 92) with false. change (32 =? 32) with true.
  cbn iota. rewrite N.ltb_irrefl. reflexivity. Qed.

Lemma dq_eat_spaces bi tw r acc : forall (k : nat) f ci,
  ci + N.of_nat k <= bi ->
  lex_f (k + f) QS_DQ bi ci tw (repeat 32 k ++ r) acc = lex_f f QS_DQ bi (ci + N.of_nat k) tw r acc.
Proof.
  induction k as [|k IH]; intros f ci H.
  - cbn [repeat app Nat.add]. rewrite N.add_0_r. reflexivity.
  - cbn [repeat app Nat.add]. cbn [lex_f].
    change (32 =? 34) with false. change (32 =? 92) with false. change (32 =? 32) with true. cbn iota.
    assert (E : (ci <? bi) = true) by lia. rewrite E. rewrite IH by lia. f_equal. lia.
Qed.

Lemma dq_step_esc f bi ci tw x y r acc :
  In (x, y) [(110, 10); (116, 9); (34, 34); (92, 92)] ->
  lex_f (S (S f)) QS_DQ bi ci tw (92 :: x :: r) acc = lex_f f QS_DQ bi bi O r (y :: acc).
Proof.
  intro H. cbn [In] in H.
  destruct H as [H|[H|[H|[H|[]]]]]; injection H as <- <-; reflexivity.
Qed.

Lemma store_char_nl r : store_char (10 :: r) = Some ([10], r).
Proof. reflexivity. Qed.

Lemma dq_step_nl f bi ci tw r acc :
  bi <> 0 ->
  lex_f (S f) QS_DQ bi ci tw (10 :: r) acc = lex_f f QS_DQ bi 0 O r (10 :: skipn tw acc).
Proof.
  intro H. apply N.eqb_neq in H. cbn [lex_f].
  change (10 =? 34) with false. change (10 =? 92) with false. change (10 =? 32) with false.
  change (10 =? 9) with false. change (10 =? 13) with false. change (10 =? 10) with true. cbn iota.
  rewrite H, store_char_nl. reflexivity.
Qed.

(* the byte that may follow the closing quote: anything but + and white space (the printer puts ; or { there) *)
Definition is_term (c : N) : bool :=
  negb ((c =? 43) || (c =? 13) || (c =? 10) || (c =? 32) || (c =? 9)).

Lemma next_term f bi ci tw c r acc :
  is_term c = true -> lex_f (S f) QS_NEXT bi ci tw (c :: r) acc = Ok (rev acc, c :: r).
Proof.
  unfold is_term. intro H. rewrite negb_true_iff, !orb_false_iff in H.
  destruct H as ((((H43 & H13) & H10) & H32) & H9).
  cbn [lex_f]. rewrite H43, H13, H10, H32, H9. reflexivity.
Qed.

Lemma dq_close f bi ci tw c r acc :
  is_term c = true -> lex_f (S (S f)) QS_DQ bi ci tw (34 :: c :: r) acc = Ok (rev acc, c :: r).
Proof. intro H. cbn [lex_f]. change (34 =? 34) with true. cbn iota. apply next_term. exact H. Qed.

Lemma rev_rev_append (ch acc s : bytes) : rev (rev_append ch acc) ++ s = rev acc ++ ch ++ s.
Proof. rewrite rev_append_rev, rev_app_distr, rev_involutive, <- app_assoc. reflexivity. Qed.

(* ====================================================================================== *)
(* double-quoted text: the round trip                                                      *)
(* ====================================================================================== *)

(* [n] blanks of INDENT, so continuation lines start with n + 1 blanks; the opening quote stands at a
   column with bi = block_indent >= n + 1. Equality holds for the multi-line layout; in the single-line
   layout (bi > n + 1) the lexer would eat leading blanks of a continuation line, but then the printer
   ([sl] = true) has escaped the newline. Invariants of the lexer state along the printed text:
   trailing_ws is 0 unless the byte before is a blank ([p]); current_indent has reached block_indent
   unless the next byte is not a blank. *)
Ltac slim := repeat match goal with
  | H : context[lex_f] |- _ => clear H
  | H : _ = true |- _ => clear H
  | H : _ = false |- _ => clear H
  | H : _ \/ _ |- _ => clear H
  | H : _ -> _ |- _ => clear H
  | H : ychars _ |- _ => clear H
  | H : store_ok _ |- _ => clear H
  end.
Ltac slia := slim; lia.
Lemma dq_text_roundtrip sl bi n c r :
  N.of_nat n + 1 <= bi -> is_term c = true -> (N.of_nat n + 1 = bi \/ sl = true) ->
  forall s, ychars s ->
    no_byte 13 s = true ->
    forall f acc tw ci p,
      (p = false -> tw = O) ->
      (ci = bi \/ ~ starts 32 s) ->
      Nat.lt (length (body_dq sl (repeat 32 n) p s ++ 34 :: c :: r)) f ->
      lex_f f QS_DQ bi ci tw (body_dq sl (repeat 32 n) p s ++ 34 :: c :: r) acc = Ok (rev acc ++ s, c :: r).
Proof.
  intros Hbi Hc Hlay s Hs.
  induction Hs as [|ch s Hch Hs IH]; intros H13 f acc tw ci p Htw Hci Hlen.
  - cbn [body_dq app] in *. cbn [length] in Hlen.
    destruct f as [|[|f]]; [slia|slia|]. rewrite dq_close by exact Hc. rewrite app_nil_r. reflexivity.
  - destruct Hch as (Hok & Hne & Hshape).
    apply no_byte_app in H13. destruct H13 as [H13c H13s]. specialize (IH H13s).
    (* a character that the lexer takes in its default branch *)
    assert (Hdef : dqplain (hd 0 ch) -> Forall dqcopy ch ->
                   lex_f f QS_DQ bi ci tw (body_dq sl (repeat 32 n) p (ch ++ s) ++ 34 :: c :: r) acc =
                   Ok (rev acc ++ ch ++ s, c :: r)).
    { intros Hp Hall. rewrite body_dq_plain1 in * by assumption. rewrite <- app_assoc in *.
      destruct f as [|f]; [slia|]. rewrite dq_step_char by assumption.
      rewrite IH.
      - rewrite rev_rev_append. reflexivity.
      - reflexivity.
      - left; reflexivity.
      - rewrite app_length in Hlen. destruct ch; [congruence|]. cbn [length] in Hlen. slia. }
    destruct Hshape as [Hall|[a ->]].
    { apply Hdef.
      - destruct ch as [|x ch]; [congruence|]. inversion Hall; subst. apply plain_dqplain. assumption.
      - eapply Forall_impl; [|exact Hall]. unfold plain, dqcopy. intros b Hb. tauto. }
    destruct (N.eq_dec a 13) as [->|N13].
    { apply no_byte_cons in H13c. destruct H13c as [E _]. congruence. }
    destruct (N.eq_dec a 10) as [->|N10].
    { clear Hdef. cbn [app] in *.
      assert (Hgoal : forall s0, rev (10 :: acc) ++ s0 = rev acc ++ 10 :: s0).
      { intro s0. cbn [rev]. rewrite <- app_assoc. reflexivity. }
      destruct (p || (sl && head_blank s)) eqn:Ep.
      { (* a blank before the newline or, single-line layout, after it: printed as backslash n *)
        rewrite body_dq_nl_esc in * by exact Ep. cbn [app length] in *.
        destruct f as [|[|f]]; [slia|slia|].
        rewrite (dq_step_esc _ _ _ _ 110 10) by (cbn; auto).
        rewrite IH.
        - rewrite Hgoal. reflexivity.
        - reflexivity.
        - left; reflexivity.
        - slia. }
      (* real newline *)
      rewrite body_dq_nl_real in * by exact Ep.
      apply orb_false_iff in Ep. destruct Ep as [Ep Esl]. subst p.
      pose proof (Htw eq_refl) as Etw. subst tw. clear Htw.
      assert (Hci' : N.of_nat n + 1 = bi \/ ~ starts 32 s).
      { destruct Hlay as [E|E]; [left; exact E|]. right. subst sl. cbn [andb] in Esl.
        exact (head_blank_starts _ Esl). }
      cbn [app length] in *.
      destruct f as [|f]; [slia|].
      destruct s as [|x s'].
      - (* end of the text: blanks, then the closing quote *)
        rewrite cont_indent_nil in *. cbn [body_dq] in *. rewrite app_nil_r in *.
        rewrite app_length, repeat_length in Hlen. cbn [length] in Hlen.
        rewrite dq_step_nl by slia. cbn [skipn].
        replace f with ((n + 1) + (f - (n + 1)))%nat by slia.
        rewrite dq_eat_spaces by slia.
        remember (f - (n + 1))%nat as f' eqn:Ef. destruct f' as [|[|f']]; [slia|slia|].
        rewrite dq_close by exact Hc. cbn [rev]. reflexivity.
      - destruct (N.eq_dec x 10) as [->|Nx].
        + (* empty line: no blanks are printed *)
          change (cont_indent (repeat 32 n) (10 :: s')) with (@nil N) in *. cbn [app] in *.
          rewrite dq_step_nl by slia. cbn [skipn].
          rewrite IH.
          * rewrite Hgoal. reflexivity.
          * reflexivity.
          * right. intros [t E]. discriminate E.
          * slia.
        + rewrite cont_indent_other in * by exact Nx. rewrite <- app_assoc in *.
          rewrite app_length, repeat_length in Hlen.
          rewrite dq_step_nl by slia. cbn [skipn].
          replace f with ((n + 1) + (f - (n + 1)))%nat by slia.
          rewrite dq_eat_spaces by slia.
          rewrite IH.
          * rewrite Hgoal. reflexivity.
          * reflexivity.
          * destruct Hci' as [E|E]; [left; slia|right; exact E].
          * slia. }
    cbn [app] in *. rewrite body_dq_other in * by exact N10.
    destruct (N.eq_dec a 32) as [->|N32].
    { (* blank: stored, counted as trailing *)
      assert (Eci : ci = bi).
      { destruct Hci as [E|E]; [exact E|]. exfalso. apply E. exists s. reflexivity. }
      subst ci. change (32 =? 32) with true in *. change (esc_byte 32) with [32] in *. cbn [app] in *.
      destruct f as [|f]; [cbn [length] in Hlen; slia|].
      rewrite dq_step_space_store. rewrite IH.
      - cbn [rev]. rewrite <- app_assoc. reflexivity.
      - discriminate.
      - left; reflexivity.
      - cbn [length] in Hlen. slia. }
    apply N.eqb_neq in N32 as E32. rewrite E32 in *.
    (* tab, double quote, backslash: two bytes, read through the escaped state *)
    assert (Hesc : forall x, In (x, a) [(110, 10); (116, 9); (34, 34); (92, 92)] -> esc_byte a = [92; x] ->
                   lex_f f QS_DQ bi ci tw (esc_byte a ++ body_dq sl (repeat 32 n) false s ++ 34 :: c :: r) acc =
                   Ok (rev acc ++ a :: s, c :: r)).
    { intros x Hin Ee. rewrite Ee in *.
      cbn [app] in *. destruct f as [|[|f]]; [cbn [length] in Hlen; slia|cbn [length] in Hlen; slia|].
      rewrite (dq_step_esc _ _ _ _ _ _ _ _ Hin). rewrite IH.
      - cbn [rev]. rewrite <- app_assoc. reflexivity.
      - reflexivity.
      - left; reflexivity.
      - cbn [length] in Hlen. slia. }
    rewrite <- app_assoc in *.
    destruct (N.eq_dec a 9) as [->|N9]; [apply (Hesc 116); [cbn; auto|reflexivity]|].
    destruct (N.eq_dec a 34) as [->|N34]; [apply (Hesc 34); [cbn; auto|reflexivity]|].
    destruct (N.eq_dec a 92) as [->|N92]; [apply (Hesc 92); [cbn; auto 6|reflexivity]|].
    clear Hesc. rewrite esc_byte_plain in * by assumption.
    change ([a] ++ body_dq sl (repeat 32 n) false s ++ 34 :: c :: r)
      with (([a] ++ body_dq sl (repeat 32 n) false s) ++ 34 :: c :: r) in *.
    rewrite <- (body_dq_plain1 sl (repeat 32 n) [a] s p) in *;
      try (constructor; [unfold dqcopy; tauto|constructor]); try discriminate.
    apply Hdef.
    + cbn [hd]. unfold dqplain. tauto.
    + constructor; [unfold dqcopy; tauto|constructor].
Qed.

(* ====================================================================================== *)
(* single-quoted text: the round trip                                                      *)
(* ====================================================================================== *)

Lemma sq_step_char f bi ci tw ch r acc :
  store_ok ch -> ch <> [] -> hd 0 ch <> 39 ->
  lex_f (S f) QS_SQ bi ci tw (ch ++ r) acc = lex_f f QS_SQ bi ci tw r (rev_append ch acc).
Proof.
  intros Hs Hne Hp. destruct ch as [|x ch]; [congruence|]. cbn [hd] in Hp.
  apply N.eqb_neq in Hp. pose proof (Hs r) as E. cbn [app] in E |- *. cbn [lex_f].
  rewrite Hp, E. reflexivity.
Qed.

Lemma sq_open_steps f r acc :
  lex_f (5 + f) QS_SQ 0 0 O (sq_open ++ r) acc = lex_f f QS_DQ 0 0 O r acc.
Proof. reflexivity. Qed.

Lemma dq0_step_quote f r acc :
  lex_f (S f) QS_DQ 0 0 O (39 :: r) acc = lex_f f QS_DQ 0 0 O r (39 :: acc).
Proof. reflexivity. Qed.

Lemma cont_skip_spaces bi ci tw r acc : forall (k : nat) f,
  lex_f (k + f) QS_CONT bi ci tw (repeat 32 k ++ r) acc = lex_f f QS_CONT bi ci tw r acc.
Proof. induction k as [|k IH]; intro f; [reflexivity|]. cbn [repeat app Nat.add]. rewrite <- IH. reflexivity. Qed.

Lemma sq_close_steps n f r acc :
  lex_f (4 + (n + S f)) QS_DQ 0 0 O (sq_close (repeat 32 n) ++ r) acc = lex_f f QS_SQ 0 0 O r acc.
Proof.
  unfold sq_close. rewrite <- !app_assoc.
  change (lex_f (n + S f) QS_CONT 0 0 O (repeat 32 n ++ [39] ++ r) acc = lex_f f QS_SQ 0 0 O r acc).
  rewrite cont_skip_spaces. reflexivity.
Qed.

Lemma sq_end f c r acc :
  is_term c = true -> lex_f (S (S f)) QS_SQ 0 0 O (39 :: c :: r) acc = Ok (rev acc, c :: r).
Proof. intro H. cbn [lex_f]. change (39 =? 39) with true. cbn iota. apply next_term. exact H. Qed.

Lemma sq_close_length n : length (sq_close (repeat 32 n)) = (n + 5)%nat.
Proof. unfold sq_close. rewrite !app_length, repeat_length. cbn [length]. lia. Qed.

Lemma sq_text_roundtrip n c r :
  is_term c = true ->
  forall s, ychars s ->
    forall (inrun : bool) f acc,
      Nat.lt (length (sq_line (repeat 32 n) inrun s ++ 39 :: c :: r)) f ->
      lex_f f (if inrun then QS_DQ else QS_SQ) 0 0 O (sq_line (repeat 32 n) inrun s ++ 39 :: c :: r) acc
      = Ok (rev acc ++ s, c :: r).
Proof.
  intros Hc s Hs.
  induction Hs as [|ch s Hch Hs IH]; intros inrun f acc Hlen.
  - destruct inrun; cbn [sq_line] in *.
    + rewrite app_length, sq_close_length in Hlen. cbn [length] in Hlen.
      replace f with (4 + (n + S (S (S (f - n - 7)))))%nat by slia.
      rewrite sq_close_steps, sq_end by exact Hc. rewrite app_nil_r. reflexivity.
    + cbn [app length] in *. destruct f as [|[|f]]; [slia|slia|].
      rewrite sq_end by exact Hc. rewrite app_nil_r. reflexivity.
  - destruct Hch as (Hok & Hne & Hshape).
    assert (Hchunk : Forall (fun b => b <> 39) ch ->
                     lex_f f (if inrun then QS_DQ else QS_SQ) 0 0 O
                       (sq_line (repeat 32 n) inrun (ch ++ s) ++ 39 :: c :: r) acc = Ok (rev acc ++ ch ++ s, c :: r)).
    { intro Hall. destruct (sq_line_chunk (repeat 32 n) ch s Hall Hne) as [E1 E2].
      assert (Hhd : hd 0 ch <> 39).
      { destruct ch as [|x ch]; [congruence|]. inversion Hall; subst. assumption. }
      assert (Hl : (1 <= length ch)%nat) by (destruct ch; [congruence|cbn [length]; lia]).
      destruct inrun.
      - rewrite E2 in Hlen |- *. rewrite <- !app_assoc in Hlen |- *.
        rewrite app_length, sq_close_length, app_length in Hlen.
        replace f with (4 + (n + S (S (f - n - 6))))%nat by slia.
        rewrite sq_close_steps, sq_step_char by assumption.
        rewrite (IH false); [rewrite rev_rev_append; reflexivity|]. slia.
      - rewrite E1 in Hlen |- *. rewrite <- !app_assoc in Hlen |- *. rewrite app_length in Hlen.
        destruct f as [|f]; [slia|]. rewrite sq_step_char by assumption.
        rewrite (IH false); [rewrite rev_rev_append; reflexivity|]. slia. }
    destruct Hshape as [Hall|[a ->]].
    { apply Hchunk. eapply Forall_impl; [|exact Hall]. unfold plain. intros b Hb. tauto. }
    destruct (N.eq_dec a 39) as [->|N39]; [|apply Hchunk; constructor; [exact N39|constructor]].
    clear Hchunk. cbn [app sq_line] in *. change (39 =? 39) with true in *. cbn iota in *.
    assert (Hgoal : forall s0, rev (39 :: acc) ++ s0 = rev acc ++ 39 :: s0).
    { intro s0. cbn [rev]. rewrite <- app_assoc. reflexivity. }
    destruct inrun.
    + cbn [app length] in *. destruct f as [|f]; [slia|]. rewrite dq0_step_quote.
      rewrite (IH true); [rewrite Hgoal; reflexivity|]. slia.
    + rewrite <- !app_assoc in Hlen |- *. rewrite app_length in Hlen. cbn [app length] in Hlen |- *.
      change (length sq_open) with 5%nat in Hlen.
      replace f with (5 + S (f - 6))%nat by slia.
      rewrite sq_open_steps, dq0_step_quote.
      rewrite (IH true); [rewrite Hgoal; reflexivity|]. slia.
Qed.

(* ====================================================================================== *)
(* columns                                                                                 *)
(* ====================================================================================== *)

Lemma col_after_app s1 : forall c s2, col_after c (s1 ++ s2) = col_after (col_after c s1) s2.
Proof. induction s1 as [|x s1 IH]; intros c s2; [reflexivity|]. cbn [app col_after]. apply IH. Qed.

Lemma col_after_nonl s : forall c, no_byte 10 s = true -> col_after c s = c + N.of_nat (length s).
Proof.
  induction s as [|x s IH]; intros c H; cbn [col_after length]; [lia|].
  apply no_byte_cons in H. destruct H as [H1 H2]. apply N.eqb_neq in H1. rewrite H1, IH by exact H2. lia.
Qed.

Lemma no_byte_repeat b x n : x <> b -> no_byte b (repeat x n) = true.
Proof. intro H. induction n as [|n IH]; [reflexivity|]. cbn [repeat]. apply no_byte_cons. auto. Qed.

Lemma col_after_spaces c w : col_after c (spaces w) = c + w.
Proof.
  unfold spaces. rewrite col_after_nonl by (apply no_byte_repeat; discriminate).
  rewrite repeat_length. lia.
Qed.

(* ====================================================================================== *)
(* ypr_text() then read_qstring()                                                          *)
(* ====================================================================================== *)

(* the hypothesis the round trip needs: no carriage return in a double-quoted text, no newline in a
   single-quoted one *)
Definition rt_hyp (single_quoted : bool) (s : bytes) : bool :=
  if single_quoted then no_byte 10 s else no_byte 13 s.

Theorem text_roundtrip_dq shrink level name s sl c r :
  no_byte 10 name = true -> ylexable s = true -> is_term c = true -> no_byte 13 s = true ->
  print_then_lex shrink level name s sl false (c :: r) = Ok (s, c :: r).
Proof.
  intros Hname Hs Hc H13. apply ylexable_ychars in Hs.
  unfold print_then_lex, ypr_text_parts. cbn [andb negb]. rewrite andb_true_r.
  set (w0 := indent_w shrink level).
  destruct sl.
  - (* single-line layout: the quote stands after the name *)
    rewrite !col_after_app, col_after_spaces, (col_after_nonl name) by exact Hname.
    cbn [col_after]. change (32 =? 10) with false. cbn iota.
    cbn [app]. rewrite text_lines_dq. cbn [rev ypr_encode flat_map app head_blank]. rewrite <- app_assoc. cbn [app].
    unfold lex_qstring, spaces.
    match goal with |- lex_f _ _ ?b _ _ _ _ = _ => set (bi := b) end.
    assert (Hbi : N.of_nat (N.to_nat w0) + 1 <= bi) by (subst bi; lia).
    apply (dq_text_roundtrip true bi (N.to_nat w0) c r Hbi Hc (or_intror eq_refl) s Hs H13 _ [] O bi false).
    + reflexivity.
    + left. reflexivity.
    + clear Hbi. subst bi w0. cbn [length]. lia.
  - (* multi-line layout: the quote stands on its own line after INDENT of the next level *)
    set (w1 := indent_w shrink ((level + 1) mod 65536)).
    rewrite !col_after_app, col_after_spaces, (col_after_nonl name) by exact Hname.
    cbn [col_after]. change (10 =? 10) with true. cbn iota.
    cbn [app]. rewrite text_lines_dq. cbn [rev ypr_encode flat_map app head_blank]. rewrite <- app_assoc. cbn [app].
    unfold lex_qstring, spaces.
    match goal with |- lex_f _ _ ?b _ _ _ _ = _ => set (bi := b) end.
    assert (Hbi : N.of_nat (N.to_nat w1) + 1 = bi) by (subst bi; lia).
    apply (dq_text_roundtrip false bi (N.to_nat w1) c r (N.eq_le_incl _ _ Hbi) Hc (or_introl Hbi) s Hs H13 _ [] O bi false).
    + reflexivity.
    + left. reflexivity.
    + clear Hbi. subst bi w1. cbn [length]. lia.
Qed.

Theorem text_roundtrip_sq shrink level name s sl c r :
  ylexable s = true -> is_term c = true -> no_byte 10 s = true ->
  print_then_lex shrink level name s sl true (c :: r) = Ok (s, c :: r).
Proof.
  intros Hs Hc H10. apply ylexable_ychars in Hs.
  unfold print_then_lex, ypr_text_parts. cbn [andb].
  match goal with |- context[col_after 0 ?h] => generalize (col_after 0 h) end. intro col.
  match goal with |- context[spaces ?w] => generalize w end. intro w.
  cbn [app]. rewrite text_lines_one by exact H10. cbn [rev app]. rewrite <- app_assoc. cbn [app].
  unfold lex_qstring, spaces.
  rewrite (sq_text_roundtrip (N.to_nat w) c r Hc s Hs false); [reflexivity|]. cbn [length]. lia.
Qed.

Theorem text_roundtrip shrink level name s sl sq c r :
  no_byte 10 name = true -> ylexable s = true -> is_term c = true -> rt_hyp sq s = true ->
  print_then_lex shrink level name s sl sq (c :: r) = Ok (s, c :: r).
Proof.
  intros Hname Hs Hc Hh. unfold rt_hyp in Hh. destruct sq.
  - apply text_roundtrip_sq; assumption.
  - apply text_roundtrip_dq; assumption.
Qed.

(* printing what was read back from a print reproduces the print *)
Theorem print_fixpoint shrink level name s sl sq c r s' rest :
  no_byte 10 name = true -> ylexable s = true -> is_term c = true -> rt_hyp sq s = true ->
  print_then_lex shrink level name s sl sq (c :: r) = Ok (s', rest) ->
  ypr_text shrink level name s' sl sq = ypr_text shrink level name s sl sq.
Proof.
  intros Hname Hs Hc Hh E. rewrite text_roundtrip in E by assumption. injection E as <- _. reflexivity.
Qed.

(* ====================================================================================== *)
(* ypr_encode() of a whole argument between double quotes (extension instance arguments)   *)
(* ====================================================================================== *)

Lemma ypr_encode_plain ch :
  Forall (fun b => b <> 9 /\ b <> 10 /\ b <> 34 /\ b <> 92) ch -> ypr_encode ch = ch.
Proof.
  induction 1 as [|b ch (H9 & H10 & H34 & H92) _ IH]; [reflexivity|].
  unfold ypr_encode in *. cbn [flat_map]. rewrite IH, esc_byte_plain by assumption. reflexivity.
Qed.

Lemma enc_roundtrip_f bi c r :
  is_term c = true ->
  forall s, ychars s -> no_byte 13 s = true ->
    forall f acc tw,
      Nat.lt (length (ypr_encode s ++ 34 :: c :: r)) f ->
      lex_f f QS_DQ bi bi tw (ypr_encode s ++ 34 :: c :: r) acc = Ok (rev acc ++ s, c :: r).
Proof.
  intros Hc s Hs.
  induction Hs as [|ch s Hch Hs IH]; intros H13 f acc tw Hlen.
  - cbn [ypr_encode flat_map app length] in *. destruct f as [|[|f]]; [slia|slia|].
    rewrite dq_close by exact Hc. rewrite app_nil_r. reflexivity.
  - destruct Hch as (Hok & Hne & Hshape).
    apply no_byte_app in H13. destruct H13 as [H13c H13s]. specialize (IH H13s).
    rewrite ypr_encode_app, <- app_assoc in Hlen |- *. rewrite app_length in Hlen.
    assert (Hdef : dqplain (hd 0 ch) -> Forall (fun b => b <> 9 /\ b <> 10 /\ b <> 34 /\ b <> 92) ch ->
                   lex_f f QS_DQ bi bi tw (ypr_encode ch ++ ypr_encode s ++ 34 :: c :: r) acc =
                   Ok (rev acc ++ ch ++ s, c :: r)).
    { intros Hp Hall. rewrite ypr_encode_plain in * by exact Hall.
      destruct f as [|f]; [destruct ch; [congruence|cbn [length] in Hlen; slia]|].
      rewrite dq_step_char by assumption. rewrite IH; [rewrite rev_rev_append; reflexivity|].
      destruct ch; [congruence|]. cbn [length] in Hlen. slia. }
    destruct Hshape as [Hall|[a ->]].
    { apply Hdef.
      - destruct ch as [|x ch]; [congruence|]. inversion Hall; subst. apply plain_dqplain. assumption.
      - eapply Forall_impl; [|exact Hall]. unfold plain. intros b Hb. tauto. }
    destruct (N.eq_dec a 13) as [->|N13].
    { apply no_byte_cons in H13c. destruct H13c as [E _]. congruence. }
    assert (Hgoal : forall s0, rev (a :: acc) ++ s0 = rev acc ++ [a] ++ s0).
    { intro s0. cbn [rev app]. rewrite <- app_assoc. reflexivity. }
    destruct (N.eq_dec a 32) as [->|N32].
    { cbn [ypr_encode flat_map app length] in *. change (esc_byte 32) with [32] in *. cbn [app length] in *.
      destruct f as [|f]; [slia|]. rewrite dq_step_space_store. rewrite IH; [rewrite Hgoal; reflexivity|]. slia. }
    assert (Hesc : forall x, In (x, a) [(110, 10); (116, 9); (34, 34); (92, 92)] -> esc_byte a = [92; x] ->
                   lex_f f QS_DQ bi bi tw (ypr_encode [a] ++ ypr_encode s ++ 34 :: c :: r) acc =
                   Ok (rev acc ++ [a] ++ s, c :: r)).
    { intros x Hin Ee. cbn [ypr_encode flat_map] in *. rewrite Ee in *. cbn [app length] in *.
      destruct f as [|[|f]]; [slia|slia|].
      rewrite (dq_step_esc _ _ _ _ _ _ _ _ Hin). rewrite IH; [rewrite Hgoal; reflexivity|]. slia. }
    destruct (N.eq_dec a 10) as [->|N10]; [apply (Hesc 110); [cbn; auto|reflexivity]|].
    destruct (N.eq_dec a 9) as [->|N9]; [apply (Hesc 116); [cbn; auto|reflexivity]|].
    destruct (N.eq_dec a 34) as [->|N34]; [apply (Hesc 34); [cbn; auto|reflexivity]|].
    destruct (N.eq_dec a 92) as [->|N92]; [apply (Hesc 92); [cbn; auto 6|reflexivity]|].
    apply Hdef.
    + cbn [hd]. unfold dqplain. tauto.
    + constructor; [tauto|constructor].
Qed.

Theorem encode_roundtrip col s c r :
  ylexable s = true -> is_term c = true -> no_byte 13 s = true ->
  lex_qstring col ([34] ++ ypr_encode s ++ [34] ++ c :: r) = Ok (s, c :: r).
Proof.
  intros Hs Hc H13. apply ylexable_ychars in Hs. cbn [app]. unfold lex_qstring.
  apply (enc_roundtrip_f (col + 1) c r Hc s Hs H13 _ [] O). cbn [length]. lia.
Qed.

(* ====================================================================================== *)
(* the RFC 3629 encoding of the characters the lexer accepts is lexable                    *)
(* ====================================================================================== *)
From LY Require Import Utf8P.

Definition lexer_accepts_char (cp : N) : bool := getutf8_accepts_char cp && is_yangutf8char cp.

Lemma store_ok_encoded cp : lexer_accepts_char cp = true -> store_ok (utf8_encode cp) /\ utf8_encode cp <> [].
Proof.
  unfold lexer_accepts_char. intro H. apply andb_true_iff in H. destruct H as [H1 H2].
  pose proof (getutf8_encode cp H1) as Hg.
  assert (E : store_char (utf8_encode cp) = Some (utf8_encode cp, [])).
  { unfold store_char. rewrite Hg, H2. rewrite firstn_all, skipn_all. reflexivity. }
  destruct (store_char_inv _ _ _ E) as [_ (Hok & Hne & _)]. split; assumption.
Qed.

Lemma ylexable_f_app_ok ch s : store_ok ch -> ch <> [] ->
  forall fuel, ylexable_f fuel s = true -> ylexable_f (S fuel) (ch ++ s) = true.
Proof.
  intros Hok Hne fuel H. cbn [ylexable_f]. destruct (ch ++ s) as [|x t] eqn:E.
  - reflexivity.
  - rewrite <- E, Hok. exact H.
Qed.

Lemma ylexable_f_mono : forall fuel s, ylexable_f fuel s = true -> ylexable_f (S fuel) s = true.
Proof.
  induction fuel as [|f IH]; intros s H; [discriminate|].
  cbn [ylexable_f] in H. destruct s as [|a s]; [reflexivity|].
  change (ylexable_f (S (S f)) (a :: s)) with
    (match store_char (a :: s) with None => false | Some (_, r) => ylexable_f (S f) r end).
  destruct (store_char (a :: s)) as [[ch r]|]; [apply IH; exact H|discriminate].
Qed.
Lemma ylexable_f_le f1 f2 s : (f1 <= f2)%nat -> ylexable_f f1 s = true -> ylexable_f f2 s = true.
Proof. induction 1 as [|f2 _ IH]; intro H; [exact H|]. apply ylexable_f_mono, IH, H. Qed.

Lemma ylexable_encoded cps :
  forallb lexer_accepts_char cps = true -> ylexable (flat_map utf8_encode cps) = true.
Proof.
  unfold ylexable.
  induction cps as [|cp cps IH]; intro H; [reflexivity|].
  cbn [forallb] in H. apply andb_true_iff in H. destruct H as [H1 H2].
  cbn [flat_map]. destruct (store_ok_encoded cp H1) as [Hok Hne].
  eapply ylexable_f_le; [|apply (ylexable_f_app_ok _ _ Hok Hne), (IH H2)].
  rewrite app_length. destruct (utf8_encode cp); [congruence|]. cbn [length]. lia.
Qed.

(* ====================================================================================== *)
(* the hypotheses are needed: witnesses                                                    *)
(* ====================================================================================== *)
Definition nm_description : bytes := [100;101;115;99;114;105;112;116;105;111;110].
Definition nm_units : bytes := [117;110;105;116;115].
Definition nm_default : bytes := [100;101;102;97;117;108;116].

(* the former defects (blank before a newline; single-line layout, blanks after a newline): what is
   printed now, and that it is read back. 92 110 = backslash n. *)
Lemma trailing_ws_fixed :
  let s := [97; 32; 10; 32; 98] in
  ypr_text_parts false 1 nm_description s false false =
    ([32; 32] ++ nm_description ++ [10; 32; 32; 32; 32], [34; 97; 32; 92; 110; 32; 98; 34]) /\
  print_then_lex false 1 nm_description s false false [59] = Ok (s, [59]) /\
  ypr_text_parts false 1 nm_description [97; 32; 32; 10; 10; 32; 10; 98; 32] false false =
    ([32; 32] ++ nm_description ++ [10; 32; 32; 32; 32],
     [34; 97; 32; 32; 92; 110; 10; 32; 32; 32; 32; 32; 32; 92; 110; 98; 32; 34]).
Proof. vm_compute. repeat split. Qed.

Lemma singleline_indent_fixed :
  let s := [97; 10; 32; 32; 98; 10; 99] in
  ypr_text_parts false 1 nm_units s true false =
    ([32; 32] ++ nm_units ++ [32], [34; 97; 92; 110; 32; 32; 98; 10; 32; 32; 32; 99; 34]) /\
  print_then_lex false 1 nm_units s true false [59] = Ok (s, [59]) /\
  ypr_text_parts false 1 nm_description s false false =
    ([32; 32] ++ nm_description ++ [10; 32; 32; 32; 32],
     [34; 97; 10; 32; 32; 32; 32; 32; 32; 32; 98; 10; 32; 32; 32; 32; 32; 99; 34]) /\
  print_then_lex false 1 nm_description s false false [59] = Ok (s, [59]).
Proof. vm_compute. repeat split. Qed.

(* carriage return: dropped before a newline, an error elsewhere *)
Lemma cr_witness :
  ylexable [97; 13; 10; 98] = true /\ rt_hyp false [97; 13; 10; 98] = false /\
  print_then_lex false 1 nm_description [97; 13; 10; 98] false false [59] = Ok ([97; 10; 98], [59]) /\
  ylexable [97; 13; 98] = true /\
  print_then_lex false 1 nm_description [97; 13; 98] false false [59] = Err E_CR.
Proof. vm_compute. repeat split. Qed.

(* ... and then the second print differs from the first *)
Lemma fixpoint_cr_witness :
  let s := [97; 13; 10; 98] in
  exists s', print_then_lex false 1 nm_description s false false [59] = Ok (s', [59]) /\
             ypr_text false 1 nm_description s' false false <> ypr_text false 1 nm_description s false false.
Proof. exists [97; 10; 98]. split; [vm_compute; reflexivity|]. vm_compute. discriminate. Qed.

(* single-quoted text with a newline: the blanks printed in front of the continuation line become content *)
Lemma squote_newline_witness :
  let s := [97; 10; 98] in
  ylexable s = true /\ no_byte 10 s = false /\
  print_then_lex false 1 nm_default s true true [59] = Ok ([97; 10; 32; 32; 32; 98], [59]).
Proof. vm_compute. repeat split. Qed.

(* carriage return, newline through ypr_encode(): read back as backslash, n *)
Lemma encode_cr_witness :
  lex_qstring 4 ([34] ++ ypr_encode [97; 13; 10; 98] ++ [34; 59]) = Ok ([97; 92; 110; 98], [59]).
Proof. vm_compute. reflexivity. Qed.

(* regression of the former defect (fixed by /repo commit f25b870): plane 4 is accepted *)
Lemma plane4_witness :
  is_yang_char 262144 = true /\ is_yangutf8char 262144 = true /\ is_yangutf8char 327677 = true /\
  ylexable (utf8_encode 262144) = true /\ ylexable (utf8_encode 324989) = true /\ is_yangutf8char 327678 = false.
Proof. vm_compute. repeat split. Qed.
(* the coded rule is the RFC rule *)
Lemma yangutf8char_spec :
  N_all_below 1114112 (fun c => Bool.eqb (is_yangutf8char c) (is_yang_char c)) = true.
Proof. vm_cast_no_check (eq_refl true). Qed.

(* hence the characters the lexer accepts (ly_getutf8 then is_yangutf8char) are exactly the yang-char *)
Lemma lexer_accepts_yang_char cp : is_yang_char cp = true -> lexer_accepts_char cp = true.
Proof.
  intro H. unfold lexer_accepts_char, getutf8_accepts_char. rewrite H. cbn [andb].
  assert (Hlt : cp < 1114112) by (unfold is_yang_char, is_scalar in H; lia).
  pose proof (N_all_below_spec _ _ yangutf8char_spec cp Hlt) as E. apply Bool.eqb_prop in E. rewrite E. exact H.
Qed.

Lemma forallb_lexer_accepts cps : forallb is_yang_char cps = true -> forallb lexer_accepts_char cps = true.
Proof.
  induction cps as [|c cps IH]; cbn [forallb]; [reflexivity|]. intro H. apply andb_true_iff in H. destruct H as [H1 H2].
  rewrite (lexer_accepts_yang_char c H1), (IH H2). reflexivity.
Qed.

(* non-vacuity: a text with both quote kinds, a backslash, tabs, empty lines, blanks at the start of a
   line, before a newline and at the end of the last line, 2-, 3- and 4-byte characters *)
Definition example_text : bytes :=
  [73; 116; 39; 115; 32; 34; 113; 34; 32; 92; 9; 120; 9; 10; 10; 32; 32; 121; 32; 10; 32; 122; 32; 32; 10; 10; 32; 195; 169; 226; 130; 172; 240; 159; 152; 128; 32; 32].
Lemma example_ok :
  ylexable example_text = true /\ rt_hyp false example_text = true /\
  print_then_lex false 3 nm_description example_text false false [59] = Ok (example_text, [59]) /\
  print_then_lex true 0 nm_description example_text false false [32; 123] = Ok (example_text, [123]) /\
  print_then_lex false 3 nm_units example_text true false [59] = Ok (example_text, [59]) /\
  (let s := [73; 116; 39; 115; 32; 39; 39; 34; 92; 9; 13] in
   rt_hyp true s = true /\ print_then_lex false 2 nm_default s true true [59] = Ok (s, [59])).
Proof. vm_compute. repeat split. Qed.
