(* ValidP.v -- proofs of slice `valid` (property C02): ValidateImpl (lyd_validate as coded) against RfcValid (RFC 7950).

   Plan: [vspec r OK] says that a sequential check r (first error wins) realises the family of propositions OK indexed by
   error class: r = VOk iff every class is satisfied, and an error of class e means OK e fails. The combinators vand /
   vall / chk compose. Every stage of the implementation is given such a specification whose OK family is the
   corresponding RFC rule (group), for FRESH trees. *)
From Coq Require Import Permutation.
From LY Require Import Base Tree TreeP RfcValid ValidateImpl.
From Coq Require Import ZifyBool ZifyNat ZifyN.
Local Open Scope N_scope.

(* ------------------------------------------------------------------------------------------- *)
(* sequential checks                                                                             *)
(* ------------------------------------------------------------------------------------------- *)
Definition vspec (r : vres) (OK : verr -> Prop) : Prop :=
  (r = VOk <-> forall e, OK e) /\ (forall e, r = VErr e -> ~ OK e).

Lemma vspec_ok : vspec VOk (fun _ => True).
Proof. split; [split; auto|]. intros e H. discriminate. Qed.

Lemma vspec_ext r (OK OK' : verr -> Prop) : vspec r OK -> (forall e, OK e <-> OK' e) -> vspec r OK'.
Proof.
  intros [H1 H2] E. split.
  - rewrite H1. split; intros H e; apply E, H.
  - intros e He Hok. apply (H2 e He). apply E. exact Hok.
Qed.

Lemma verr_eqb_eq a b : verr_eqb a b = true <-> a = b.
Proof. destruct a, b; cbn; split; intro H; try reflexivity; try discriminate. Qed.

Lemma verr_dec (a b : verr) : {a = b} + {a <> b}.
Proof. decide equality. Qed.

Lemma vspec_chk (b : bool) e0 : vspec (chk b e0) (fun e => e = e0 -> b = true).
Proof.
  unfold chk. destruct b.
  - split; [split; auto|]. intros e H. discriminate.
  - split.
    + split; [discriminate|]. intro H. specialize (H e0 eq_refl). discriminate.
    + intros e H. inversion H; subst. intro Hc. specialize (Hc eq_refl). discriminate.
Qed.

(* the second check may rely on the first one having passed *)
Lemma vspec_vand r1 r2 (OK1 OK2 : verr -> Prop) :
  vspec r1 OK1 -> ((forall e, OK1 e) -> vspec r2 OK2) -> vspec (vand r1 r2) (fun e => OK1 e /\ OK2 e).
Proof.
  intros [A1 A2] HB. unfold vand. destruct r1 as [|e1].
  - assert (H1 : forall e, OK1 e) by (apply A1; reflexivity).
    destruct (HB H1) as [B1 B2]. split.
    + rewrite B1. split; [intros H e; split; [apply H1|apply H]|intros H e; apply H].
    + intros e He [_ Hc]. apply (B2 e He Hc).
  - split.
    + split; [discriminate|]. intro H. exfalso. apply (A2 e1 eq_refl). apply H.
    + intros e He [Hc _]. apply (A2 e He Hc).
Qed.

Lemma vspec_vand' r1 r2 (OK1 OK2 : verr -> Prop) :
  vspec r1 OK1 -> vspec r2 OK2 -> vspec (vand r1 r2) (fun e => OK1 e /\ OK2 e).
Proof. intros H1 H2. apply vspec_vand; auto. Qed.

Lemma vspec_vall {A} (g : A -> vres) (OKf : A -> verr -> Prop) (l : list A) :
  (forall x, In x l -> vspec (g x) (OKf x)) -> vspec (vall g l) (fun e => forall x, In x l -> OKf x e).
Proof.
  induction l as [|x l IH]; intro H; cbn [vall].
  - eapply vspec_ext; [apply vspec_ok|]. intro e. split; [intros _ x []|auto].
  - eapply vspec_ext.
    + apply vspec_vand'; [apply H; left; reflexivity|apply IH; intros y Hy; apply H; right; exact Hy].
    + intro e. cbn beta. split.
      * intros [H1 H2] y [->|Hy]; [exact H1|apply H2, Hy].
      * intro Hx. split; [apply Hx; left; reflexivity|intros y Hy; apply Hx; right; exact Hy].
Qed.

Lemma vall_app {A} (g : A -> vres) l1 l2 : vall g (l1 ++ l2) = vand (vall g l1) (vall g l2).
Proof.
  induction l1 as [|x l1 IH]; cbn [vall app]; [reflexivity|]. rewrite IH. destruct (g x); reflexivity.
Qed.

(* a check that depends on the elements only through membership: permuting / regrouping the list *)
Lemma vspec_vall_incl {A} (g : A -> vres) (OKf : A -> verr -> Prop) (l l' : list A) :
  (forall x, In x l <-> In x l') ->
  vspec (vall g l) (fun e => forall x, In x l -> OKf x e) ->
  (forall x, In x l' -> vspec (g x) (OKf x)) ->
  vspec (vall g l') (fun e => forall x, In x l -> OKf x e).
Proof.
  intros Hin _ H. eapply vspec_ext; [apply vspec_vall, H|].
  intro e. split; intros Hx x Hi; apply Hx, Hin, Hi.
Qed.

(* ------------------------------------------------------------------------------------------- *)
(* small facts                                                                                   *)
(* ------------------------------------------------------------------------------------------- *)
Lemma forest_ind' (Q : forest -> Prop) :
  (forall f, (forall n, In n f -> Q (d_ch n)) -> Q f) -> forall f, Q f.
Proof.
  intros H.
  assert (HN : forall n, Q (d_ch n)).
  { induction n as [s v d m ch IH] using dnode_ind'. cbn [d_ch]. apply H. intros n Hn.
    rewrite Forall_forall in IH. apply IH, Hn. }
  intro f. apply H. intros n _. apply HN.
Qed.

Lemma all_ctx_node_unfold P l n :
  all_ctx_node P l n = all_ctx P (st_children l (d_sid n)) (d_ch n).
Proof. destruct n as [s v d m ch]. reflexivity. Qed.

Lemma all_ctx_iff P l f :
  all_ctx P l f = true <->
  P l f = true /\ forall n, In n f -> all_ctx P (st_children l (d_sid n)) (d_ch n) = true.
Proof.
  unfold all_ctx at 1. rewrite andb_true_iff, forallb_forall. split; intros [H1 H2]; (split; [exact H1|]);
    intros n Hn; [rewrite <- all_ctx_node_unfold|rewrite all_ctx_node_unfold]; apply H2, Hn.
Qed.

Lemma erase_mark_new n : erase (mark_new n) = n.
Proof.
  induction n as [s v d m ch IH] using dnode_ind'. cbn [mark_new erase]. f_equal.
  rewrite map_map. rewrite <- (map_id ch) at 2. apply map_ext_in. intros x Hx. rewrite Forall_forall in IH. apply IH, Hx.
Qed.

Lemma map_erase_mark_new f : map erase (map mark_new f) = f.
Proof. rewrite map_map. rewrite <- (map_id f) at 2. apply map_ext. apply erase_mark_new. Qed.

Fixpoint mark_clr (n : dnode) : vnode :=
  match n with DN s v d m ch => VN s v d false m (map mark_clr ch) end.

Lemma erase_mark_clr n : erase (mark_clr n) = n.
Proof.
  induction n as [s v d m ch IH] using dnode_ind'. cbn [mark_clr erase]. f_equal.
  rewrite map_map. rewrite <- (map_id ch) at 2. apply map_ext_in. intros x Hx. rewrite Forall_forall in IH. apply IH, Hx.
Qed.

Lemma map_erase_mark_clr f : map erase (map mark_clr f) = f.
Proof. rewrite map_map. rewrite <- (map_id f) at 2. apply map_ext. apply erase_mark_clr. Qed.

Lemma pairwise_forall {A} (r : A -> A -> bool) l :
  pairwise r l = true <-> forall l1 a l2 b l3, l = l1 ++ a :: l2 ++ b :: l3 -> r a b = true.
Proof.
  induction l as [|x l IH]; cbn [pairwise].
  - split; [intros _ l1 a l2 b l3 H; destruct l1; discriminate|reflexivity].
  - rewrite andb_true_iff, forallb_forall, IH. split.
    + intros [H1 H2] l1 a l2 b l3 E. destruct l1 as [|y l1]; cbn [app] in E; inversion E; subst.
      * apply H1. apply in_or_app. right. left. reflexivity.
      * eapply H2. reflexivity.
    + intro H. split.
      * intros b Hb. apply in_split in Hb. destruct Hb as [l2 [l3 ->]]. apply (H [] x l2 b l3). reflexivity.
      * intros l1 a l2 b l3 ->. apply (H (x :: l1) a l2 b l3). reflexivity.
Qed.

Lemma pairwise_impl {A} (r r' : A -> A -> bool) l :
  (forall a b, In a l -> In b l -> r a b = true -> r' a b = true) -> pairwise r l = true -> pairwise r' l = true.
Proof.
  induction l as [|x l IH]; cbn [pairwise]; intros H; [reflexivity|].
  rewrite !andb_true_iff, !forallb_forall. intros [H1 H2]. split.
  - intros b Hb. apply H; [left; reflexivity|right; exact Hb|apply H1, Hb].
  - apply IH; [|exact H2]. intros a b Ha Hb. apply H; right; assumption.
Qed.

(* ------------------------------------------------------------------------------------------- *)
(* the parser's checks                                                                           *)
(* ------------------------------------------------------------------------------------------- *)
Section Proofs.
  Variable ty : sid -> bytes -> bool.
  Variable vs : vschema.

  Lemma pchk_spec n :
    vspec (pchk vs ty n) (fun e => (e = EType -> types_node ty vs n = true) /\ (e = EKey -> keys_node vs n = true)).
  Proof.
    induction n as [s v d m ch IH] using dnode_ind'. cbn [pchk types_node keys_node].
    rewrite Forall_forall in IH.
    eapply vspec_ext.
    - apply vspec_vand'.
      + instantiate (1 := fun e => e = EType -> (match kind vs s with KLeaf | KLeafList => ty s v | _ => true end) = true).
        destruct (kind vs s); try apply vspec_chk;
          (eapply vspec_ext; [apply vspec_ok|intro e; split; auto]).
      + apply vspec_vand'; [apply vspec_vall; intros x Hx; apply IH, Hx|apply vspec_chk].
    - intro e. cbn beta. rewrite !andb_true_iff, !forallb_forall. split.
      + intros [H1 [H2 H3]]. split; intro E.
        * split; [apply H1, E|]. intros x Hx. apply (H2 x Hx), E.
        * split; [apply H3, E|]. intros x Hx. apply (H2 x Hx), E.
      + intros [H1 H2]. split; [intro E; apply (H1 E)|]. split.
        * intros x Hx. split; intro E; [apply (H1 E), Hx|apply (H2 E), Hx].
        * intro E. apply (H2 E).
  Qed.

  Lemma parse_spec f :
    vspec (vall (pchk vs ty) f)
          (fun e => (e = EType -> rfc_types ty vs f = true) /\ (e = EKey -> rfc_keys vs f = true)).
  Proof.
    eapply vspec_ext; [apply vspec_vall; intros x _; apply pchk_spec|].
    intro e. unfold rfc_types, rfc_keys. rewrite !forallb_forall. split.
    - intro H. split; intros E x Hx; apply (H x Hx), E.
    - intros [H1 H2] x Hx. split; intro E; [apply (H1 E), Hx|apply (H2 E), Hx].
  Qed.

  (* ----------------------------------------------------------------------------------------- *)
  (* lyd_validate_new on a fresh sibling list                                                    *)
  (* ----------------------------------------------------------------------------------------- *)
  Lemma d_sid_erase n : d_sid (erase n) = vn_sid n.
  Proof. destruct n; reflexivity. Qed.
  Lemma d_val_erase n : d_val (erase n) = vn_val n.
  Proof. destruct n; reflexivity. Qed.
  Lemma d_ch_erase n : d_ch (erase n) = map erase (vn_ch n).
  Proof. destruct n; reflexivity. Qed.

  Lemma find_map_erase k l :
    find (fun c => d_sid c =? k) (map erase l) = option_map erase (find (fun c => vn_sid c =? k) l).
  Proof.
    induction l as [|x l IH]; cbn [map find option_map]; [reflexivity|].
    rewrite d_sid_erase. destruct (vn_sid x =? k); [reflexivity|exact IH].
  Qed.

  Lemma vkey_vals_erase n : vkey_vals vs n = key_vals (vs_info vs) (erase n).
  Proof.
    unfold vkey_vals, key_vals. rewrite d_sid_erase, d_ch_erase. apply map_ext. intro k.
    unfold child_val, find_sid. rewrite find_map_erase.
    destruct (find (fun c => vn_sid c =? k) (vn_ch n)); cbn [option_map]; [rewrite d_val_erase|]; reflexivity.
  Qed.

  (* lyd_compare_single(a, b, 0) == 0 on data nodes *)
  Definition sinst (a b : dnode) : bool :=
    (d_sid a =? d_sid b) &&
    match kind vs (d_sid a) with
    | KList => beq_bytes_list (key_vals (vs_info vs) a) (key_vals (vs_info vs) b)
    | KLeafList => beq_bytes (d_val a) (d_val b)
    | _ => true
    end.
  Definition conflict (a b : dnode) : bool := negb (dup_inst (vs_info vs) (d_sid a)) && sinst a b.
  Definition dup_ctx (_ : list stree) (f : forest) : bool := pairwise (fun a b => negb (conflict a b)) f.

  Lemma same_vinst_erase a b : same_vinst vs a b = sinst (erase a) (erase b).
  Proof. unfold same_vinst, sinst. rewrite !d_sid_erase, !d_val_erase, !vkey_vals_erase. reflexivity. Qed.

  Lemma dup_of_erase others n :
    dup_of vs others n = existsb (conflict (erase n)) (map erase others).
  Proof.
    unfold dup_of, conflict. rewrite d_sid_erase.
    destruct (negb (dup_inst (vs_info vs) (vn_sid n))); cbn [andb].
    - induction others as [|x l IH]; cbn [existsb map]; [reflexivity|]. rewrite same_vinst_erase, IH. reflexivity.
    - induction others as [|x l IH]; cbn [existsb map]; [reflexivity|exact IH].
  Qed.

  Lemma beq_bytes_sym a b : beq_bytes a b = beq_bytes b a.
  Proof.
    destruct (beq_bytes a b) eqn:E1, (beq_bytes b a) eqn:E2; try reflexivity.
    - apply beq_bytes_eq in E1. subst. rewrite beq_bytes_refl in E2. discriminate.
    - apply beq_bytes_eq in E2. subst. rewrite beq_bytes_refl in E1. discriminate.
  Qed.

  Lemma beq_bytes_list_sym a b : beq_bytes_list a b = beq_bytes_list b a.
  Proof.
    destruct (beq_bytes_list a b) eqn:E1, (beq_bytes_list b a) eqn:E2; try reflexivity.
    - apply beq_bytes_list_eq in E1. subst. assert (H : beq_bytes_list b b = true) by (apply beq_bytes_list_eq; reflexivity). congruence.
    - apply beq_bytes_list_eq in E2. subst. assert (H : beq_bytes_list a a = true) by (apply beq_bytes_list_eq; reflexivity). congruence.
  Qed.

  Lemma conflict_sym a b : conflict a b = conflict b a.
  Proof.
    unfold conflict, sinst. destruct (d_sid a =? d_sid b) eqn:E.
    - apply N.eqb_eq in E. rewrite E, N.eqb_refl. cbn [andb].
      rewrite beq_bytes_sym, beq_bytes_list_sym. reflexivity.
    - rewrite N.eqb_sym, E. cbn [andb]. rewrite !andb_false_r. reflexivity.
  Qed.

  (* cases *)
  Lemma sub_has_data_erase g t : sub_has_data (map erase g) t = existsb (in_sub t) g.
  Proof.
    apply Bool.eq_iff_eq_true. unfold sub_has_data, in_sub, has_sid. rewrite !existsb_exists. split.
    - intros [s [Hs E1]]. apply existsb_exists in E1. destruct E1 as [d [Hd E1]].
      apply in_map_iff in Hd. destruct Hd as [n [<- Hn]]. rewrite d_sid_erase in E1.
      exists n. split; [exact Hn|]. apply existsb_exists. exists s. split; [exact Hs|exact E1].
    - intros [n [Hn E2]]. apply existsb_exists in E2. destruct E2 as [s [Hs E2]].
      exists s. split; [exact Hs|]. apply existsb_exists. exists (erase n).
      split; [apply in_map, Hn|rewrite d_sid_erase; exact E2].
  Qed.

  Definition allnew (g : vforest) : Prop := forall n, In n g -> vn_new n = true.

  Lemma existsb_new g c : allnew g -> existsb (fun n => in_sub c n && vn_new n) g = existsb (in_sub c) g.
  Proof.
    intro H. induction g as [|x g IH]; cbn [existsb]; [reflexivity|].
    rewrite (H x (or_introl eq_refl)), andb_true_r, IH; [reflexivity|]. intros n Hn. apply H. right. exact Hn.
  Qed.

  Definition b2n {A} (o : option A) : nat := match o with Some _ => 1%nat | None => 0%nat end.

  Lemma cases_scan_new g : allnew g -> forall cs nw,
    cases_scan g cs None nw =
    if (length (filter (fun c => existsb (in_sub c) g) cs) + b2n nw <=? 1)%nat
    then ROk (None, match nw with Some c => Some c | None => find (fun c => existsb (in_sub c) g) cs end)
    else RErr EDupCase.
  Proof.
    intro Hn. induction cs as [|c cs IH]; intro nw; cbn [cases_scan filter find length].
    - destruct nw; reflexivity.
    - rewrite (existsb_new g c Hn). destruct (existsb (in_sub c) g) eqn:E; cbn [length].
      + destruct nw as [c0|]; cbn [b2n].
        * replace (S (length (filter (fun c1 => existsb (in_sub c1) g) cs)) + 1 <=? 1)%nat with false; [reflexivity|].
          symmetry. apply Nat.leb_gt. lia.
        * rewrite IH. cbn [b2n]. replace (S (length (filter (fun c1 => existsb (in_sub c1) g) cs)) + 0)%nat
            with (length (filter (fun c1 => existsb (in_sub c1) g) cs) + 1)%nat by lia. reflexivity.
      + rewrite IH. reflexivity.
  Qed.

  Lemma validate_cases_new g cs : allnew g ->
    validate_cases cs g =
    if (length (filter (sub_has_data (map erase g)) cs) <=? 1)%nat then ROk g else RErr EDupCase.
  Proof.
    intro Hn. unfold validate_cases. rewrite (cases_scan_new g Hn). cbn [b2n]. rewrite Nat.add_0_r.
    rewrite (filter_ext (sub_has_data (map erase g)) (fun c => existsb (in_sub c) g)) by (intro c; apply sub_has_data_erase).
    destruct (length (filter (fun c => existsb (in_sub c) g) cs) <=? 1)%nat; reflexivity.
  Qed.

  Lemma case_t_nil t : case_t [] t = true.
  Proof.
    induction t as [s ch IH|cid m cs IH|c d ch IH] using stree_ind'; cbn [case_t]; [reflexivity| |].
    - rewrite Forall_forall in IH. apply andb_true_iff. split.
      + assert (E : filter (sub_has_data []) cs = []).
        { clear IH. induction cs as [|x cs IHc]; cbn [filter]; [reflexivity|].
          unfold sub_has_data at 1. replace (existsb (has_sid []) (st_sids x)) with false; [exact IHc|].
          symmetry. induction (st_sids x); cbn; [reflexivity|assumption]. }
        rewrite E. reflexivity.
      + apply forallb_forall. exact IH.
    - rewrite Forall_forall in IH. apply forallb_forall. exact IH.
  Qed.

  Definition fold_vch (l : list stree) (r : rs vforest) : rs vforest :=
    fold_left (fun acc c => match acc with ROk g => vchoices c g | e => e end) l r.

  Lemma fold_vch_err l e : fold_vch l (RErr e) = RErr e.
  Proof. unfold fold_vch. induction l as [|x l IH]; cbn [fold_left]; [reflexivity|exact IH]. Qed.

  Lemma fold_vch_spec g l :
    (forall t, In t l -> vchoices t g = if case_t (map erase g) t then ROk g else RErr EDupCase) ->
    fold_vch l (ROk g) = if forallb (case_t (map erase g)) l then ROk g else RErr EDupCase.
  Proof.
    induction l as [|x l IH]; intro H; cbn [forallb]; [reflexivity|].
    unfold fold_vch. cbn [fold_left]. rewrite (H x (or_introl eq_refl)).
    destruct (case_t (map erase g) x); cbn [andb].
    - apply IH. intros t Ht. apply H. right. exact Ht.
    - apply fold_vch_err.
  Qed.

  Lemma vchoices_new g : allnew g -> forall t,
    vchoices t g = if case_t (map erase g) t then ROk g else RErr EDupCase.
  Proof.
    intros Hn t. induction t as [s ch IH|cid m cs IH|c d ch IH] using stree_ind'; cbn [vchoices].
    - reflexivity.
    - rewrite Forall_forall in IH. destruct g as [|x g'] eqn:Eg.
      + cbn [map]. rewrite case_t_nil. reflexivity.
      + rewrite <- Eg in *. rewrite (validate_cases_new g cs Hn). cbn [case_t].
        destruct (length (filter (sub_has_data (map erase g)) cs) <=? 1)%nat; cbn [andb]; [|reflexivity].
        apply (fold_vch_spec g cs). exact IH.
    - rewrite Forall_forall in IH. cbn [case_t]. apply (fold_vch_spec g ch). exact IH.
  Qed.

  (* node loop *)
  Fixpoint loop_ok (pre todo : vforest) : bool :=
    match todo with
    | [] => true
    | n :: r => negb (dup_of vs (pre ++ r) n) && loop_ok (pre ++ [vn_clear_new n]) r
    end.

  Lemma kill_dflts_id s l : (forall x, In x l -> vn_dflt x = false) -> kill_dflts s l = l.
  Proof.
    intro H. unfold kill_dflts. induction l as [|x l IH]; cbn [filter]; [reflexivity|].
    unfold is_dflt_of. rewrite (H x (or_introl eq_refl)), andb_false_r. cbn [negb]. f_equal.
    apply IH. intros y Hy. apply H. right. exact Hy.
  Qed.

  Lemma vn_dflt_clear n : vn_dflt (vn_clear_new n) = vn_dflt n.
  Proof. destruct n; reflexivity. Qed.

  Lemma vloop_fresh l : forall fuel todo done last,
    (length todo <= fuel)%nat ->
    (forall x, In x done -> vn_dflt x = false) ->
    (forall x, In x todo -> vn_new x = true /\ vn_dflt x = false) ->
    vloop vs l fuel done todo last =
    if loop_ok (rev done) todo then ROk (rev done ++ map vn_clear_new todo) else RErr EDup.
  Proof.
    induction fuel as [|k IH]; intros todo done last Hlen Hd Ht.
    - destruct todo; [|cbn in Hlen; lia]. cbn [vloop loop_ok map]. rewrite app_nil_r. reflexivity.
    - destruct todo as [|n r]; [cbn [vloop loop_ok map]; rewrite app_nil_r; reflexivity|].
      destruct (Ht n (or_introl eq_refl)) as [Hn1 Hn2].
      cbn [vloop]. rewrite Hn1, Hn2. cbn [orb negb andb].
      assert (Hf : existsb (fun x => (vn_sid x =? vn_sid n) && negb (vn_dflt x)) (rev done ++ n :: r) = true).
      { rewrite existsb_app. cbn [existsb]. rewrite N.eqb_refl, Hn2. cbn. apply orb_true_r. }
      rewrite Hf. rewrite andb_true_r.
      assert (Hdr : forall x, In x r -> vn_dflt x = false) by (intros x Hx; apply Ht; right; exact Hx).
      rewrite (kill_dflts_id (vn_sid n) done Hd), (kill_dflts_id (vn_sid n) r Hdr).
      assert (E : (let '(done1, r1, gone) :=
                     if has_default vs (vn_sid n) && negb (opt_is last (vn_sid n)) then (done, r, false) else (done, r, false) in
                   if gone then vloop vs l k done1 r1 (if has_default vs (vn_sid n) && negb (opt_is last (vn_sid n)) then Some (vn_sid n) else last)
                   else if dup_of vs (rev done1 ++ r1) n then RErr EDup
                   else vloop vs l k (vn_clear_new n :: done1) r1 (if has_default vs (vn_sid n) && negb (opt_is last (vn_sid n)) then Some (vn_sid n) else last)) =
                  if loop_ok (rev done) (n :: r) then ROk (rev done ++ map vn_clear_new (n :: r)) else RErr EDup).
      { destruct (has_default vs (vn_sid n) && negb (opt_is last (vn_sid n))); cbn [loop_ok];
          (destruct (dup_of vs (rev done ++ r) n); cbn [negb andb]; [reflexivity|]);
          (rewrite IH; [cbn [rev map]; rewrite <- app_assoc; reflexivity|cbn in Hlen; lia| |exact (fun x Hx => Ht x (or_intror Hx))]);
          (intros x [<-|Hx]; [rewrite vn_dflt_clear; exact Hn2|apply Hd, Hx]). }
      exact E.
  Qed.

  Lemma erase_clear n : erase (vn_clear_new n) = erase n.
  Proof. destruct n; reflexivity. Qed.

  Lemma loop_ok_iff : forall todo pre,
    loop_ok pre todo = true <->
    (forall n p, In n todo -> In p pre -> conflict (erase n) (erase p) = false) /\
    pairwise (fun a b => negb (conflict a b)) (map erase todo) = true.
  Proof.
    induction todo as [|n r IH]; intro pre; cbn [loop_ok map pairwise].
    - split; [intros _; split; [intros n p []|reflexivity]|reflexivity].
    - rewrite andb_true_iff, negb_true_iff, dup_of_erase, IH, andb_true_iff, forallb_forall.
      split.
      + intros [H1 [H2 H3]]. split; [|split; [|exact H3]].
        * intros n' p [<-|Hn'] Hp.
          -- destruct (conflict (erase n) (erase p)) eqn:E; [|reflexivity].
             assert (Hx : existsb (conflict (erase n)) (map erase (pre ++ r)) = true).
             { apply existsb_exists. exists (erase p). split; [apply in_map, in_or_app; left; exact Hp|exact E]. }
             congruence.
          -- apply H2; [exact Hn'|apply in_or_app; left; exact Hp].
        * intros b Hb. apply in_map_iff in Hb. destruct Hb as [x [<- Hx]]. apply negb_true_iff.
          destruct (conflict (erase n) (erase x)) eqn:E; [|reflexivity].
          assert (Hy : existsb (conflict (erase n)) (map erase (pre ++ r)) = true).
          { apply existsb_exists. exists (erase x). split; [apply in_map, in_or_app; right; exact Hx|exact E]. }
          congruence.
      + intros [H1 [H2 H3]]. split; [|split; [|exact H3]].
        * destruct (existsb (conflict (erase n)) (map erase (pre ++ r))) eqn:E; [|reflexivity].
          apply existsb_exists in E. destruct E as [y [Hy E]]. apply in_map_iff in Hy. destruct Hy as [x [<- Hx]].
          apply in_app_or in Hx. destruct Hx as [Hx|Hx].
          -- rewrite (H1 n x (or_introl eq_refl) Hx) in E. discriminate.
          -- specialize (H2 (erase x) (in_map erase r x Hx)). apply negb_true_iff in H2. congruence.
        * intros n' p Hn' Hp. apply in_app_or in Hp. destruct Hp as [Hp|[<-|[]]].
          -- apply H1; [right; exact Hn'|exact Hp].
          -- rewrite erase_clear, conflict_sym.
             specialize (H2 (erase n') (in_map erase r n' Hn')). apply negb_true_iff in H2. exact H2.
  Qed.

  Definition fresh_top (g : vforest) : Prop := forall x, In x g -> vn_new x = true /\ vn_dflt x = false.

  Lemma vlevel_fresh l g : fresh_top g ->
    vlevel vs l g =
    if forallb (case_t (map erase g)) l
    then (if dup_ctx l (map erase g) then ROk (map vn_clear_new g) else RErr EDup)
    else RErr EDupCase.
  Proof.
    intro Hf. unfold vlevel.
    assert (Hn : allnew g) by (intros n Hn; apply Hf, Hn).
    pose proof (fold_vch_spec g l (fun t _ => vchoices_new g Hn t)) as Hc. unfold fold_vch in Hc.
    rewrite Hc.
    destruct (forallb (case_t (map erase g)) l); [|reflexivity].
    rewrite (vloop_fresh l (length g) g [] None (le_n _)); [|intros x []|exact Hf].
    cbn [rev app]. unfold dup_ctx.
    destruct (loop_ok [] g) eqn:E.
    - apply loop_ok_iff in E. destruct E as [_ E]. rewrite E. reflexivity.
    - destruct (pairwise (fun a b => negb (conflict a b)) (map erase g)) eqn:E2; [|reflexivity].
      assert (H : loop_ok [] g = true) by (apply loop_ok_iff; split; [intros n p _ []|exact E2]). congruence.
  Qed.

  (* ----------------------------------------------------------------------------------------- *)
  (* the DFS of lyd_validate_subtree on a fresh tree                                              *)
  (* ----------------------------------------------------------------------------------------- *)
  Definition NewOK (l : list stree) (f : forest) (e : verr) : Prop :=
    (e = EDupCase -> all_ctx case_ctx l f = true) /\ (e = EDup -> all_ctx dup_ctx l f = true).

  Definition top_clr (n : dnode) : vnode :=
    match n with DN s v d m ch => VN s v d false m (map mark_new ch) end.

  Lemma clear_mark_new n : vn_clear_new (mark_new n) = top_clr n.
  Proof. destruct n; reflexivity. Qed.

  Lemma vfsize_in n g : In n g -> (vsize n <= vfsize g)%nat.
  Proof.
    induction g as [|x g IH]; intros []; cbn [vfsize fold_right].
    - subst. lia.
    - specialize (IH H). unfold vfsize in IH. lia.
  Qed.

  Lemma nodflt_in f x : nodflt f = true -> In x f -> d_dflt x = false /\ nodflt (d_ch x) = true.
  Proof.
    unfold nodflt at 1. rewrite forallb_forall. intros H Hx. specialize (H x Hx). destruct x as [s v d m ch].
    cbn [nodflt_node] in H. apply andb_true_iff in H. destruct H as [H1 H2]. apply negb_true_iff in H1. split; assumption.
  Qed.

  Lemma rmap_dich (h : vnode -> rs vnode) (A : dnode -> Prop) (Bad : dnode -> verr -> Prop) (f : forest) :
    (forall x, In x f -> (h (top_clr x) = ROk (mark_clr x) /\ A x) \/ (exists e, h (top_clr x) = RErr e /\ Bad x e)) ->
    (rmap h (map top_clr f) = ROk (map mark_clr f) /\ forall x, In x f -> A x) \/
    (exists e, rmap h (map top_clr f) = RErr e /\ exists x, In x f /\ Bad x e).
  Proof.
    induction f as [|x f IH]; intro H; cbn [map rmap].
    - left. split; [reflexivity|intros x []].
    - destruct (H x (or_introl eq_refl)) as [[E HA]|[e [E HB]]]; rewrite E.
      + destruct (IH (fun y Hy => H y (or_intror Hy))) as [[E2 HA2]|[e [E2 [y [Hy HB]]]]]; rewrite E2.
        * left. split; [reflexivity|]. intros y [<-|Hy]; [exact HA|apply HA2, Hy].
        * right. exists e. split; [reflexivity|]. exists y. split; [right; exact Hy|exact HB].
      + right. exists e. split; [reflexivity|]. exists x. split; [left; reflexivity|exact HB].
  Qed.

  Lemma vnew_fresh : forall fuel l f,
    nodflt f = true -> (vfsize (map mark_new f) < fuel)%nat ->
    (vnew vs fuel l (map mark_new f) = ROk (map mark_clr f) /\ forall e, NewOK l f e) \/
    (exists e, vnew vs fuel l (map mark_new f) = RErr e /\ ~ NewOK l f e).
  Proof.
    induction fuel as [|k IH]; intros l f Hd Hsz; [lia|].
    cbn [vnew].
    assert (Hft : fresh_top (map mark_new f)).
    { intros x Hx. apply in_map_iff in Hx. destruct Hx as [y [<- Hy]]. destruct (nodflt_in f y Hd Hy) as [H1 _].
      destruct y; cbn in *. split; [reflexivity|exact H1]. }
    rewrite (vlevel_fresh l _ Hft), map_erase_mark_new.
    destruct (forallb (case_t f) l) eqn:Ec.
    2:{ right. exists EDupCase. split; [reflexivity|]. intros [H _]. specialize (H eq_refl).
        apply all_ctx_iff in H. destruct H as [H _]. unfold case_ctx in H. congruence. }
    destruct (dup_ctx l f) eqn:Edup.
    2:{ right. exists EDup. split; [reflexivity|]. intros [_ H]. specialize (H eq_refl).
        apply all_ctx_iff in H. destruct H as [H _]. congruence. }
    rewrite map_map. rewrite (map_ext _ top_clr clear_mark_new).
    pose (h := fun n : vnode => match n with
                 | VN s v d w m ch => match vnew vs k (st_children l s) ch with
                                      | RErr e => RErr e
                                      | ROk ch' => ROk (VN s v d w m ch')
                                      end
                 end).
    change (rmap _ (map top_clr f)) with (rmap h (map top_clr f)).
    destruct (rmap_dich h (fun x => forall e, NewOK (st_children l (d_sid x)) (d_ch x) e)
                (fun x e => ~ NewOK (st_children l (d_sid x)) (d_ch x) e) f) as [[E HA]|[e [E [x [Hx HB]]]]].
    - intros x Hx. destruct (nodflt_in f x Hd Hx) as [_ Hdx].
      assert (Hs : (vfsize (map mark_new (d_ch x)) < k)%nat).
      { pose proof (vfsize_in (mark_new x) (map mark_new f) (in_map mark_new f x Hx)) as Hv.
        destruct x as [s v d m ch]. cbn [mark_new vsize d_ch] in *. unfold vfsize. lia. }
      destruct (IH (st_children l (d_sid x)) (d_ch x) Hdx Hs) as [[E HA]|[e [E HB]]];
        destruct x as [s v d m ch]; cbn [top_clr h d_sid d_ch mark_clr] in *; rewrite E.
      + left. split; [reflexivity|exact HA].
      + right. exists e. split; [reflexivity|exact HB].
    - left. split; [exact E|]. intro e. split; intro He; apply all_ctx_iff; (split; [assumption|]);
        intros n Hn; apply (HA n Hn e), He.
    - right. exists e. split; [exact E|]. intros [H1 H2]. apply HB. split; intro He.
      + specialize (H1 He). apply all_ctx_iff in H1. apply H1, Hx.
      + specialize (H2 He). apply all_ctx_iff in H2. apply H2, Hx.
  Qed.

  Lemma pairwise_and {A} (r1 r2 : A -> A -> bool) l :
    pairwise r1 l = true -> pairwise r2 l = true -> pairwise (fun a b => r1 a b && r2 a b) l = true.
  Proof.
    induction l as [|x l IH]; cbn [pairwise]; [reflexivity|].
    rewrite !andb_true_iff, !forallb_forall. intros [A1 A2] [B1 B2]. split; [|apply IH; assumption].
    intros b Hb. rewrite (A1 b Hb), (B1 b Hb). reflexivity.
  Qed.

  (* ----------------------------------------------------------------------------------------- *)
  (* LYD_VALIDATE_MULTI_ERROR: the first logged error is the error of the first-error run          *)
  (* ----------------------------------------------------------------------------------------- *)
  Lemma first_err_app a b : first_err (a ++ b) = vand (first_err a) (first_err b).
  Proof. destruct a; reflexivity. Qed.

  Lemma first_err_flat_map {A} (g : A -> list verr) l : first_err (flat_map g l) = vall (fun x => first_err (g x)) l.
  Proof. induction l as [|x l IH]; cbn [flat_map vall]; [reflexivity|]. rewrite first_err_app, IH. reflexivity. Qed.

  Lemma vall_ext_in {A} (g g' : A -> vres) l : (forall x, In x l -> g x = g' x) -> vall g l = vall g' l.
  Proof.
    intro H. induction l as [|x l IH]; cbn [vall]; [reflexivity|]. rewrite (H x (or_introl eq_refl)), IH; [reflexivity|].
    intros y Hy. apply H. right. exact Hy.
  Qed.

  Lemma first_err_elist r : first_err (elist r) = r.
  Proof. destruct r; reflexivity. Qed.

  Lemma sr_node_m_ok f t : first_err (sr_node_m vs f t) = sr_node vs f t.
  Proof.
    destruct t as [s ch|c m cs|c d ch]; cbn [sr_node_m sr_node]; try reflexivity.
    destruct (kind vs s); try apply first_err_elist.
    rewrite first_err_app, !first_err_elist. reflexivity.
  Qed.

  Lemma sr_choice_m_ok f t : first_err (sr_choice_m vs f t) = sr_choice vs f t.
  Proof.
    assert (G : first_err (sr_choice_m vs f t) = sr_choice vs f t /\
                match t with
                | TCase _ _ ch => forall t', In t' ch -> first_err (sr_choice_m vs f t') = sr_choice vs f t'
                | _ => True
                end); [|apply G].
    induction t as [s ch IH|cid m cs IH|c d ch IH] using stree_ind'; rewrite Forall_forall in IH.
    - split; [reflexivity|exact I].
    - split; [|exact I]. cbn [sr_choice_m sr_choice]. rewrite first_err_app, first_err_elist. f_equal.
      clear -IH. induction cs as [|c r IHr]; [reflexivity|].
      destruct (sub_has_data f c).
      + destruct c as [s ch|ci mi csi|ci di ch]; try reflexivity.
        destruct (IH _ (or_introl eq_refl)) as [_ Hc].
        rewrite first_err_app, !first_err_flat_map. f_equal; apply vall_ext_in; [exact Hc|intros x _; apply sr_node_m_ok].
      + apply IHr. intros x Hx. apply IH. right. exact Hx.
    - split; [reflexivity|]. intros t' Ht'. apply (IH t' Ht').
  Qed.

  Lemma schema_r_m_ok f l : first_err (schema_r_m vs f l) = schema_r vs f l.
  Proof.
    unfold schema_r_m, schema_r. rewrite first_err_app, !first_err_flat_map.
    f_equal; apply vall_ext_in; intros x _; [apply sr_choice_m_ok|apply sr_node_m_ok].
  Qed.

  Lemma vf_m_ok t : first_err (vf_m vs t) = vf vs t.
  Proof.
    assert (G : first_err (vf_m vs t) = vf vs t /\
                match t with
                | TCase _ _ ch => forall t', In t' ch -> first_err (vf_m vs t') = vf vs t'
                | _ => True
                end); [|apply G].
    induction t as [s ch IH|cid m cs IH|c d ch IH] using stree_ind'; rewrite Forall_forall in IH.
    - split; [|exact I]. cbn [vf_m vf]. destruct (is_npc vs s); [|reflexivity].
      rewrite first_err_app, schema_r_m_ok, first_err_flat_map. f_equal. apply vall_ext_in. intros x Hx. apply (IH x Hx).
    - split; [|exact I]. cbn [vf_m vf]. rewrite first_err_flat_map. apply vall_ext_in. intros c Hc.
      destruct c as [s ch|ci mi csi|ci [|] ch]; try reflexivity.
      destruct (IH _ Hc) as [_ H]. rewrite first_err_flat_map. apply vall_ext_in. exact H.
    - split; [reflexivity|]. intros t' Ht'. apply (IH t' Ht').
  Qed.

  Lemma visit_m_ok (rec : dnode -> vres) (recm : dnode -> list verr) : forall c virt,
    (forall x, In x c -> first_err (recm x) = rec x) -> first_err (visit_m vs recm c virt) = visit vs rec c virt.
  Proof.
    induction c as [|x r IH]; intros virt H; cbn [visit_m visit].
    - rewrite first_err_flat_map. apply vall_ext_in. intros t _. apply vf_m_ok.
    - rewrite !first_err_app, first_err_flat_map, (H x (or_introl eq_refl)), IH; [|intros y Hy; apply H; right; exact Hy].
      f_equal. apply vall_ext_in. intros t _. apply vf_m_ok.
  Qed.

  Lemma final_node_m_ok n : forall l, first_err (final_node_m vs l n) = final_node vs l n.
  Proof.
    induction n as [s v d m ch IH] using dnode_ind'. intro l. rewrite Forall_forall in IH. cbn [final_node_m final_node].
    rewrite first_err_app, schema_r_m_ok. f_equal. apply visit_m_ok. intros x Hx. apply (IH x Hx).
  Qed.

  Lemma final_top_m_ok f : first_err (final_top_m vs f) = final_top vs f.
  Proof.
    unfold final_top_m, final_top. rewrite first_err_app, schema_r_m_ok. f_equal. apply visit_m_ok.
    intros x _. apply final_node_m_ok.
  Qed.

  (* the first stage: the multi-error run computes the same tree when there is no error, and logs the error of the
     first-error run first *)
  Definition agree (r : rs vforest) (m : vforest * list verr) : Prop :=
    match r with
    | ROk f' => m = (f', [])
    | RErr e => exists f' es, m = (f', e :: es)
    end.

  Lemma validate_cases_agree cs f : agree (validate_cases cs f) (validate_cases_m cs f).
  Proof.
    unfold validate_cases, validate_cases_m. destruct (cases_scan f cs None None) as [[[o|] [n|]]|e]; cbn [agree]; try reflexivity.
    exists f, []. reflexivity.
  Qed.

  Lemma fold_agree (step : stree -> vforest -> rs vforest) (stepm : stree -> vforest -> vforest * list verr) l :
    (forall c, In c l -> forall g, agree (step c g) (stepm c g)) ->
    forall r m, agree r m ->
    agree (fold_left (fun acc c => match acc with ROk g => step c g | e => e end) l r)
          (fold_left (fun acc c => let '(g, e1) := acc in let '(g', e2) := stepm c g in (g', e1 ++ e2)) l m).
  Proof.
    induction l as [|c l IH]; intros H r m Ha; cbn [fold_left]; [exact Ha|].
    apply IH; [intros x Hx; apply H; right; exact Hx|].
    destruct r as [g|e]; cbn [agree] in Ha.
    - subst m. pose proof (H c (or_introl eq_refl) g) as Hc. destruct (stepm c g) as [g' e2]. cbn [app].
      destruct (step c g) as [g2|e]; cbn [agree] in *; [exact Hc|]. exact Hc.
    - destruct Ha as [f' [es ->]]. destruct (stepm c f') as [g' e2]. cbn [agree]. exists g', (es ++ e2). reflexivity.
  Qed.

  Lemma vchoices_agree t : forall f, agree (vchoices t f) (vchoices_m t f).
  Proof.
    induction t as [s ch IH|cid m cs IH|c d ch IH] using stree_ind'; intro f; cbn [vchoices vchoices_m]; rewrite Forall_forall in IH.
    - reflexivity.
    - destruct f as [|x f'] eqn:Ef; [reflexivity|]. rewrite <- Ef.
      pose proof (validate_cases_agree cs f) as Hv. destruct (validate_cases_m cs f) as [f1 es].
      destruct (validate_cases cs f) as [f2|e]; cbn [agree] in Hv.
      + injection Hv as -> ->. apply (fold_agree vchoices vchoices_m cs IH (ROk f2) (f2, [])). reflexivity.
      + destruct Hv as [f3 [es' Hv]]. injection Hv as -> ->.
        pose proof (fold_agree vchoices vchoices_m cs IH (RErr e) (f3, e :: es')) as Hf.
        assert (Hx : fold_left (fun acc c => match acc with ROk g => vchoices c g | RErr _ => acc end) cs (RErr e) = RErr e).
        { clear. induction cs; cbn [fold_left]; [reflexivity|assumption]. }
        rewrite Hx in Hf. apply Hf. cbn [agree]. exists f3, es'. reflexivity.
    - apply (fold_agree vchoices vchoices_m ch IH (ROk f) (f, [])). reflexivity.
  Qed.

  Lemma agree_pair_nil (r : rs vforest) res es : agree r (res, es) -> agree r (res, [] ++ es).
  Proof. intro H. exact H. Qed.

  Lemma vloop_agree l : forall fuel todo done last,
    agree (vloop vs l fuel done todo last) (vloop_m vs l fuel done todo last).
  Proof.
    induction fuel as [|k IH]; intros todo done last.
    - destruct todo; cbn [vloop vloop_m agree]; [reflexivity|]. eexists _, []. reflexivity.
    - destruct todo as [|n r]; [reflexivity|]. cbn [vloop vloop_m].
      destruct (negb (vn_new n || vn_dflt n)); [apply IH|].
      cbv zeta.
      match goal with |- agree (match ?T with pair _ _ => _ end) _ => destruct T as [[d1 r1] gone] end.
      destruct gone; [apply IH|].
      destruct (vn_new n && dup_of vs (rev d1 ++ r1) n).
      + destruct (vn_dflt n && stale_case_dflt l (rev d1 ++ vn_clear_new n :: r1) n);
          match goal with |- agree _ (match ?T with pair _ _ => _ end) => destruct T as [res es'] end;
          cbn [agree app]; eexists _, _; reflexivity.
      + destruct (vn_dflt n && stale_case_dflt l (rev d1 ++ vn_clear_new n :: r1) n).
        * pose proof (IH r1 d1 (if has_default vs (vn_sid n) && negb (opt_is last (vn_sid n)) && vn_new n then Some (vn_sid n) else last)) as H.
          destruct (vloop_m vs l k d1 r1 _) as [res es']. exact H.
        * pose proof (IH r1 (vn_clear_new n :: d1) (if has_default vs (vn_sid n) && negb (opt_is last (vn_sid n)) && vn_new n then Some (vn_sid n) else last)) as H.
          destruct (vloop_m vs l k (vn_clear_new n :: d1) r1 _) as [res es']. exact H.
  Qed.

  Lemma vlevel_agree l f : agree (vlevel vs l f) (vlevel_m vs l f).
  Proof.
    unfold vlevel, vlevel_m.
    pose proof (fold_agree vchoices vchoices_m l (fun c _ g => vchoices_agree c g) (ROk f) (f, []) eq_refl) as H.
    destruct (fold_left _ l (f, [])) as [f1 e1].
    destruct (fold_left _ l (ROk f)) as [f2|e]; cbn [agree] in H.
    - injection H as -> ->. pose proof (vloop_agree l (length f2) f2 [] None) as H2.
      destruct (vloop_m vs l (length f2) [] f2 None) as [f3 e2]. exact H2.
    - destruct H as [f3 [es H]]. injection H as -> ->. destruct (vloop_m vs l (length f3) [] f3 None) as [f4 e2].
      cbn [agree app]. eexists _, _. reflexivity.
  Qed.

  Lemma vnew_agree : forall fuel l f, agree (vnew vs fuel l f) (vnew_m vs fuel l f).
  Proof.
    induction fuel as [|k IH]; intros l f; [cbn [vnew vnew_m agree]; eexists _, []; reflexivity|].
    cbn [vnew vnew_m]. pose proof (vlevel_agree l f) as H. destruct (vlevel_m vs l f) as [f1 e1].
    destruct (vlevel vs l f) as [f2|e]; cbn [agree] in H.
    2:{ destruct H as [f3 [es H]]. injection H as -> ->. cbn [agree app]. eexists _, _. reflexivity. }
    injection H as -> ->. cbn [app].
    induction f2 as [|x r IHr]; cbn [rmap map flat_map agree]; [reflexivity|].
    destruct x as [s v d w m ch]. pose proof (IH (st_children l s) ch) as Hx.
    destruct (vnew_m vs k (st_children l s) ch) as [ch' ex]. destruct (vnew vs k (st_children l s) ch) as [ch2|e]; cbn [agree] in Hx.
    - injection Hx as -> ->. cbn [fst snd app].
      destruct (rmap _ r) as [r'|e]; cbn [agree] in IHr |- *.
      + injection IHr as E1 E2. rewrite E1, E2. reflexivity.
      + destruct IHr as [f' [es E]]. injection E as E1 E2. rewrite E2. eexists _, _. reflexivity.
    - destruct Hx as [f' [es E]]. injection E as -> ->. cbn [fst snd app]. eexists _, _. reflexivity.
  Qed.

  (* lyd_validate_module with LYD_VALIDATE_MULTI_ERROR: the first error logged is the error of the run without the
     option; in particular both runs accept or both reject *)
  Theorem multi_first_error g : first_err (impl_validate_multi vs g) = impl_validate vs g.
  Proof.
    unfold impl_validate_multi, impl_validate. pose proof (vnew_agree (S (vfsize g)) (vs_tree vs) g) as H.
    destruct (vnew_m vs (S (vfsize g)) (vs_tree vs) g) as [f' e1].
    destruct (vnew vs (S (vfsize g)) (vs_tree vs) g) as [f2|e]; cbn [agree] in H.
    - injection H as -> ->. cbn [app]. apply final_top_m_ok.
    - destruct H as [f3 [es H]]. injection H as -> ->. reflexivity.
  Qed.

  (* ----------------------------------------------------------------------------------------- *)
  (* histories: un-flagged nodes that were validated before, flagged nodes arbitrary (hist_ok)     *)
  (* ----------------------------------------------------------------------------------------- *)
  Lemma cases_scan_gen g : forall cs old nw,
    cases_scan g cs old nw =
    if ((length (filter (case_old g) cs) + b2n old <=? 1) && (length (filter (case_new g) cs) + b2n nw <=? 1))%nat
    then ROk (match old with Some c => Some c | None => find (case_old g) cs end,
              match nw with Some c => Some c | None => find (case_new g) cs end)
    else RErr EDupCase.
  Proof.
    induction cs as [|c cs IH]; intros old nw; cbn [cases_scan filter find length].
    - destruct old, nw; reflexivity.
    - change (existsb (fun n => in_sub c n && vn_new n) g) with (case_new g c).
      assert (Eold : case_old g c = existsb (in_sub c) g && negb (case_new g c)) by reflexivity.
      destruct (case_new g c) eqn:En.
      + assert (Eo : case_old g c = false) by (rewrite Eold; apply andb_false_r). rewrite Eo. cbn [length].
        destruct nw as [c0|]; cbn [b2n].
        * replace (S (length (filter (case_new g) cs)) + 1 <=? 1)%nat with false by (symmetry; apply Nat.leb_gt; lia).
          rewrite andb_false_r. reflexivity.
        * rewrite IH. cbn [b2n].
          replace (S (length (filter (case_new g) cs)) + 0)%nat with (length (filter (case_new g) cs) + 1)%nat by lia. reflexivity.
      + destruct (existsb (in_sub c) g) eqn:Ex; cbn [andb negb] in Eold; rewrite Eold; cbn [length].
        * destruct old as [c0|]; cbn [b2n].
          -- replace (S (length (filter (case_old g) cs)) + 1 <=? 1)%nat with false by (symmetry; apply Nat.leb_gt; lia).
             reflexivity.
          -- rewrite IH. cbn [b2n].
             replace (S (length (filter (case_old g) cs)) + 0)%nat with (length (filter (case_old g) cs) + 1)%nat by lia. reflexivity.
        * rewrite IH. reflexivity.
  Qed.

  Lemma filter_split_len {A} (p q r : A -> bool) l :
    (forall x, p x = q x || r x) -> (forall x, q x && r x = false) ->
    length (filter p l) = (length (filter q l) + length (filter r l))%nat.
  Proof.
    intros H1 H2. induction l as [|x l IH]; cbn [filter length]; [reflexivity|].
    rewrite (H1 x). specialize (H2 x). destruct (q x), (r x); cbn [orb length] in *; try discriminate; lia.
  Qed.

  Lemma find_none_all {A} (p : A -> bool) l : (forall x, In x l -> p x = false) -> find p l = None.
  Proof.
    intro H. induction l as [|x l IH]; cbn [find]; [reflexivity|]. rewrite (H x (or_introl eq_refl)).
    apply IH. intros y Hy. apply H. right. exact Hy.
  Qed.

  Lemma validate_cases_hist g cs :
    (length (filter (case_old g) cs) <=? 1)%nat = true ->
    match filter (case_new g) cs, filter (case_old g) cs with _ :: _, _ :: _ => false | _, _ => true end = true ->
    validate_cases cs g =
    if (length (filter (sub_has_data (map erase g)) cs) <=? 1)%nat then ROk g else RErr EDupCase.
  Proof.
    intros H1 H2. unfold validate_cases. rewrite cases_scan_gen. cbn [b2n]. rewrite !Nat.add_0_r.
    rewrite (filter_ext (sub_has_data (map erase g)) (fun c => existsb (in_sub c) g)) by (intro c; apply sub_has_data_erase).
    rewrite (filter_split_len (fun c => existsb (in_sub c) g) (case_old g) (case_new g)).
    2:{ intro c. unfold case_old. destruct (existsb (in_sub c) g) eqn:E, (case_new g c) eqn:E2; try reflexivity.
        unfold case_new in E2. apply existsb_exists in E2. destruct E2 as [n [Hn E2]]. apply andb_true_iff in E2.
        assert (existsb (in_sub c) g = true) by (apply existsb_exists; exists n; split; [exact Hn|apply E2]). congruence. }
    2:{ intro c. unfold case_old. destruct (case_new g c), (existsb (in_sub c) g); reflexivity. }
    rewrite H1. cbn [andb].
    destruct (filter (case_new g) cs) as [|n1 rn] eqn:En.
    - cbn [length]. rewrite Nat.add_0_r, H1. cbn [Nat.leb].
      rewrite (find_none_all (case_new g) cs); [destruct (find (case_old g) cs); reflexivity|].
      intros x Hx. destruct (case_new g x) eqn:E; [|reflexivity].
      assert (In x (filter (case_new g) cs)) by (apply filter_In; split; assumption). rewrite En in H. destruct H.
    - destruct (filter (case_old g) cs) as [|o1 ro] eqn:Eo; [|discriminate]. cbn [length Nat.add].
      assert (Hf : find (case_old g) cs = None).
      { apply find_none_all. intros x Hx. destruct (case_old g x) eqn:E; [|reflexivity].
        assert (In x (filter (case_old g) cs)) by (apply filter_In; split; assumption). rewrite Eo in H. destruct H. }
      rewrite Hf. destruct (length rn); reflexivity.
  Qed.

  Lemma vchoices_hist g : forall t, hist_case_t g t = true ->
    vchoices t g = if case_t (map erase g) t then ROk g else RErr EDupCase.
  Proof.
    intro t. induction t as [s ch IH|cid m cs IH|c d ch IH] using stree_ind'; intro H; cbn [vchoices hist_case_t] in *.
    - reflexivity.
    - rewrite Forall_forall in IH. apply andb_true_iff in H. destruct H as [H H3]. apply andb_true_iff in H. destruct H as [H1 H2].
      rewrite forallb_forall in H3. destruct g as [|x g'] eqn:Eg.
      + cbn [map]. rewrite case_t_nil. reflexivity.
      + rewrite <- Eg in *. rewrite (validate_cases_hist g cs H1 H2). cbn [case_t].
        destruct (length (filter (sub_has_data (map erase g)) cs) <=? 1)%nat; cbn [andb]; [|reflexivity].
        apply (fold_vch_spec g cs). intros t Ht. apply (IH t Ht), H3, Ht.
    - rewrite Forall_forall in IH. rewrite forallb_forall in H. cbn [case_t]. apply (fold_vch_spec g ch).
      intros t Ht. apply (IH t Ht), H, Ht.
  Qed.

  (* node loop with old and new nodes *)
  Fixpoint loop_okh (pre todo : vforest) : bool :=
    match todo with
    | [] => true
    | n :: r => if vn_new n then negb (dup_of vs (pre ++ r) n) && loop_okh (pre ++ [vn_clear_new n]) r
                else loop_okh (pre ++ [n]) r
    end.

  Lemma clear_old n : vn_new n = false -> vn_clear_new n = n.
  Proof. destruct n; cbn. intros ->. reflexivity. Qed.

  Lemma vloop_hist l : forall fuel todo done last,
    (length todo <= fuel)%nat ->
    (forall x, In x done -> vn_dflt x = false) ->
    (forall x, In x todo -> vn_dflt x = false) ->
    vloop vs l fuel done todo last =
    if loop_okh (rev done) todo then ROk (rev done ++ map vn_clear_new todo) else RErr EDup.
  Proof.
    induction fuel as [|k IH]; intros todo done last Hlen Hd Ht.
    - destruct todo; [|cbn in Hlen; lia]. cbn [vloop loop_okh map]. rewrite app_nil_r. reflexivity.
    - destruct todo as [|n r]; [cbn [vloop loop_okh map]; rewrite app_nil_r; reflexivity|].
      pose proof (Ht n (or_introl eq_refl)) as Hn2.
      assert (Hdr : forall x, In x r -> vn_dflt x = false) by (intros x Hx; apply Ht; right; exact Hx).
      cbn [vloop loop_okh]. rewrite Hn2. destruct (vn_new n) eqn:Hn1; cbn [orb negb andb].
      + assert (Hf : existsb (fun x => (vn_sid x =? vn_sid n) && negb (vn_dflt x)) (rev done ++ n :: r) = true).
        { rewrite existsb_app. cbn [existsb]. rewrite N.eqb_refl, Hn2. cbn. apply orb_true_r. }
        rewrite Hf. rewrite andb_true_r.
        rewrite (kill_dflts_id (vn_sid n) done Hd), (kill_dflts_id (vn_sid n) r Hdr).
        assert (E : (let '(done1, r1, gone) :=
                       if has_default vs (vn_sid n) && negb (opt_is last (vn_sid n)) then (done, r, false) else (done, r, false) in
                     if gone then vloop vs l k done1 r1 (if has_default vs (vn_sid n) && negb (opt_is last (vn_sid n)) then Some (vn_sid n) else last)
                     else if dup_of vs (rev done1 ++ r1) n then RErr EDup
                     else vloop vs l k (vn_clear_new n :: done1) r1 (if has_default vs (vn_sid n) && negb (opt_is last (vn_sid n)) then Some (vn_sid n) else last)) =
                    if negb (dup_of vs (rev done ++ r) n) && loop_okh (rev done ++ [vn_clear_new n]) r
                    then ROk (rev done ++ map vn_clear_new (n :: r)) else RErr EDup).
        { destruct (has_default vs (vn_sid n) && negb (opt_is last (vn_sid n)));
            (destruct (dup_of vs (rev done ++ r) n); cbn [negb andb]; [reflexivity|]);
            (rewrite IH; [cbn [rev map]; rewrite <- app_assoc; reflexivity|cbn in Hlen; lia| |exact Hdr]);
            (intros x [<-|Hx]; [rewrite vn_dflt_clear; exact Hn2|apply Hd, Hx]). }
        exact E.
      + rewrite IH; [|cbn in Hlen; lia|intros x [<-|Hx]; [exact Hn2|apply Hd, Hx]|exact Hdr].
        cbn [rev map]. rewrite <- app_assoc. cbn [app]. rewrite (clear_old n Hn1). reflexivity.
  Qed.

  Definition Rnew (a b : vnode) : bool := negb ((vn_new a || vn_new b) && conflict (erase a) (erase b)).

  Lemma loop_okh_iff : forall todo pre,
    loop_okh pre todo = true <->
    (forall n p, In n todo -> In p pre -> vn_new n = true -> conflict (erase n) (erase p) = false) /\
    pairwise Rnew todo = true.
  Proof.
    induction todo as [|n r IH]; intro pre; cbn [loop_okh pairwise].
    - split; [intros _; split; [intros n p []|reflexivity]|reflexivity].
    - destruct (vn_new n) eqn:Hn.
      + rewrite andb_true_iff, negb_true_iff, dup_of_erase, IH, andb_true_iff, forallb_forall. split.
        * intros [H1 [H2 H3]]. split; [|split; [|exact H3]].
          -- intros n' p [<-|Hn'] Hp Hnew.
             ++ destruct (conflict (erase n) (erase p)) eqn:E; [|reflexivity].
                assert (Hx : existsb (conflict (erase n)) (map erase (pre ++ r)) = true).
                { apply existsb_exists. exists (erase p). split; [apply in_map, in_or_app; left; exact Hp|exact E]. }
                congruence.
             ++ apply H2; [exact Hn'|apply in_or_app; left; exact Hp|exact Hnew].
          -- intros b Hb. unfold Rnew. rewrite Hn. cbn [orb andb]. apply negb_true_iff.
             destruct (conflict (erase n) (erase b)) eqn:E; [|reflexivity].
             assert (Hy : existsb (conflict (erase n)) (map erase (pre ++ r)) = true).
             { apply existsb_exists. exists (erase b). split; [apply in_map, in_or_app; right; exact Hb|exact E]. }
             congruence.
        * intros [H1 [H2 H3]]. split; [|split; [|exact H3]].
          -- destruct (existsb (conflict (erase n)) (map erase (pre ++ r))) eqn:E; [|reflexivity].
             apply existsb_exists in E. destruct E as [y [Hy E]]. apply in_map_iff in Hy. destruct Hy as [x [<- Hx]].
             apply in_app_or in Hx. destruct Hx as [Hx|Hx].
             ++ rewrite (H1 n x (or_introl eq_refl) Hx Hn) in E. discriminate.
             ++ specialize (H2 x Hx). unfold Rnew in H2. rewrite Hn in H2. cbn [orb andb] in H2. apply negb_true_iff in H2. congruence.
          -- intros n' p Hn' Hp Hnew. apply in_app_or in Hp. destruct Hp as [Hp|[<-|[]]].
             ++ apply H1; [right; exact Hn'|exact Hp|exact Hnew].
             ++ rewrite erase_clear, conflict_sym. specialize (H2 n' Hn'). unfold Rnew in H2. rewrite Hn in H2.
                cbn [orb andb] in H2. apply negb_true_iff in H2. exact H2.
      + rewrite IH, andb_true_iff, forallb_forall. split.
        * intros [H2 H3]. split; [|split; [|exact H3]].
          -- intros n' p [<-|Hn'] Hp Hnew; [congruence|]. apply H2; [exact Hn'|apply in_or_app; left; exact Hp|exact Hnew].
          -- intros b Hb. unfold Rnew. rewrite Hn. cbn [orb]. destruct (vn_new b) eqn:Hb2; [|reflexivity]. cbn [andb].
             apply negb_true_iff. rewrite conflict_sym. apply H2; [exact Hb|apply in_or_app; right; left; reflexivity|exact Hb2].
        * intros [H1 [H2 H3]]. split; [|exact H3].
          intros n' p Hn' Hp Hnew. apply in_app_or in Hp. destruct Hp as [Hp|[<-|[]]].
          -- apply H1; [right; exact Hn'|exact Hp|exact Hnew].
          -- specialize (H2 n' Hn'). unfold Rnew in H2. rewrite Hn, Hnew in H2. cbn [orb andb] in H2.
             apply negb_true_iff in H2. rewrite conflict_sym. exact H2.
  Qed.

  Lemma vconf_erase a b : vconf vs a b = conflict (erase a) (erase b).
  Proof. unfold vconf, conflict. rewrite d_sid_erase, same_vinst_erase. reflexivity. Qed.

  Lemma pairwise_map {A B} (h : A -> B) (r : B -> B -> bool) l : pairwise r (map h l) = pairwise (fun a b => r (h a) (h b)) l.
  Proof.
    induction l as [|x l IH]; cbn [map pairwise]; [reflexivity|]. rewrite IH. f_equal.
    clear. induction l as [|y l IH]; cbn [map forallb]; [reflexivity|]. rewrite IH. reflexivity.
  Qed.

  Lemma loop_okh_dup l g : old_free vs g = true -> loop_okh [] g = dup_ctx l (map erase g).
  Proof.
    intro Ho. unfold dup_ctx. rewrite pairwise_map.
    destruct (loop_okh [] g) eqn:E.
    - apply loop_okh_iff in E. destruct E as [_ E]. symmetry.
      pose proof (pairwise_and _ _ _ Ho E) as P. eapply pairwise_impl; [|exact P]. cbn beta. intros a b _ _ H.
      apply andb_true_iff in H. destruct H as [H1 H2]. unfold Rnew in H2. rewrite vconf_erase in H1.
      destruct (conflict (erase a) (erase b)); [|reflexivity]. destruct (vn_new a), (vn_new b); cbn in *; discriminate.
    - destruct (pairwise (fun a b => negb (conflict (erase a) (erase b))) g) eqn:E2; [|reflexivity].
      assert (H : loop_okh [] g = true).
      { apply loop_okh_iff. split; [intros n p _ []|]. eapply pairwise_impl; [|exact E2]. cbn beta. intros a b _ _ H.
        unfold Rnew. apply negb_true_iff in H. rewrite H. rewrite andb_false_r. reflexivity. }
      congruence.
  Qed.

  Definition nodflt_top (g : vforest) : Prop := forall x, In x g -> vn_dflt x = false.

  Lemma vlevel_hist l g : nodflt_top g -> hist_level vs l g = true ->
    vlevel vs l g =
    if forallb (case_t (map erase g)) l
    then (if dup_ctx l (map erase g) then ROk (map vn_clear_new g) else RErr EDup)
    else RErr EDupCase.
  Proof.
    intros Hd Hh. unfold hist_level in Hh. apply andb_true_iff in Hh. destruct Hh as [Ho Hc]. rewrite forallb_forall in Hc.
    unfold vlevel.
    pose proof (fold_vch_spec g l (fun t Ht => vchoices_hist g t (Hc t Ht))) as Hf. unfold fold_vch in Hf. rewrite Hf.
    destruct (forallb (case_t (map erase g)) l); [|reflexivity].
    rewrite (vloop_hist l (length g) g [] None (le_n _)); [|intros x []|exact Hd].
    cbn [rev app]. rewrite (loop_okh_dup l g Ho). reflexivity.
  Qed.

  Fixpoint vclr (n : vnode) : vnode :=
    match n with VN s v d _ m ch => VN s v d false m (map vclr ch) end.

  Lemma vnode_ind' (P : vnode -> Prop) :
    (forall s v d w m ch, Forall P ch -> P (VN s v d w m ch)) -> forall n, P n.
  Proof.
    intro H. fix IH 1. intros [s v d w m ch]. apply H. induction ch as [|x r IHr]; constructor; [apply IH|exact IHr].
  Qed.

  Lemma erase_vclr n : erase (vclr n) = erase n.
  Proof.
    induction n as [s v d w m ch IH] using vnode_ind'. cbn [vclr erase]. f_equal. rewrite map_map.
    apply map_ext_in. intros x Hx. rewrite Forall_forall in IH. apply IH, Hx.
  Qed.

  Lemma map_erase_vclr g : map erase (map vclr g) = map erase g.
  Proof. rewrite map_map. apply map_ext. apply erase_vclr. Qed.

  Lemma rmap_dich_v (h : vnode -> rs vnode) (A : vnode -> Prop) (Bad : vnode -> verr -> Prop) (g : vforest) :
    (forall x, In x g -> (h (vn_clear_new x) = ROk (vclr x) /\ A x) \/ (exists e, h (vn_clear_new x) = RErr e /\ Bad x e)) ->
    (rmap h (map vn_clear_new g) = ROk (map vclr g) /\ forall x, In x g -> A x) \/
    (exists e, rmap h (map vn_clear_new g) = RErr e /\ exists x, In x g /\ Bad x e).
  Proof.
    induction g as [|x g IH]; intro H; cbn [map rmap].
    - left. split; [reflexivity|intros x []].
    - destruct (H x (or_introl eq_refl)) as [[E HA]|[e [E HB]]]; rewrite E.
      + destruct (IH (fun y Hy => H y (or_intror Hy))) as [[E2 HA2]|[e [E2 [y [Hy HB]]]]]; rewrite E2.
        * left. split; [reflexivity|]. intros y [<-|Hy]; [exact HA|apply HA2, Hy].
        * right. exists e. split; [reflexivity|]. exists y. split; [right; exact Hy|exact HB].
      + right. exists e. split; [reflexivity|]. exists x. split; [left; reflexivity|exact HB].
  Qed.

  Lemma NewOK_iff l g e :
    NewOK l (map erase g) e <->
    ((e = EDupCase -> case_ctx l (map erase g) = true) /\ (e = EDup -> dup_ctx l (map erase g) = true)) /\
    forall x, In x g -> NewOK (st_children l (vn_sid x)) (map erase (vn_ch x)) e.
  Proof.
    unfold NewOK. rewrite !all_ctx_iff. split.
    - intros [H1 H2]. split; [split; intro E; [apply (H1 E)|apply (H2 E)]|].
      intros x Hx. rewrite <- d_sid_erase, <- d_ch_erase. split; intro E; [apply (H1 E)|apply (H2 E)]; apply in_map, Hx.
    - intros [[H1 H2] H3]. split; intro E; (split; [auto|]); intros n Hn; apply in_map_iff in Hn; destruct Hn as [x [<- Hx]];
        rewrite d_sid_erase, d_ch_erase; apply (H3 x Hx), E.
  Qed.

  Lemma vnew_hist : forall fuel l g,
    hist_level vs l g = true -> forallb (hist_node vs l) g = true -> (vfsize g < fuel)%nat ->
    (vnew vs fuel l g = ROk (map vclr g) /\ forall e, NewOK l (map erase g) e) \/
    (exists e, vnew vs fuel l g = RErr e /\ ~ NewOK l (map erase g) e).
  Proof.
    induction fuel as [|k IH]; intros l g Hl Hn Hsz; [lia|].
    cbn [vnew]. rewrite forallb_forall in Hn.
    assert (Hd : nodflt_top g).
    { intros x Hx. specialize (Hn x Hx). destruct x as [s v d w m ch]. cbn [hist_node vn_dflt] in *.
      apply andb_true_iff in Hn. destruct Hn as [Hn _]. apply andb_true_iff in Hn. destruct Hn as [Hn _].
      apply negb_true_iff in Hn. exact Hn. }
    rewrite (vlevel_hist l g Hd Hl).
    destruct (forallb (case_t (map erase g)) l) eqn:Ec.
    2:{ right. exists EDupCase. split; [reflexivity|]. intro H. apply NewOK_iff in H. destruct H as [[H _] _].
        specialize (H eq_refl). unfold case_ctx in H. congruence. }
    destruct (dup_ctx l (map erase g)) eqn:Edup.
    2:{ right. exists EDup. split; [reflexivity|]. intro H. apply NewOK_iff in H. destruct H as [[_ H] _].
        specialize (H eq_refl). congruence. }
    pose (h := fun n : vnode => match n with
                 | VN s v d w m ch => match vnew vs k (st_children l s) ch with
                                      | RErr e => RErr e
                                      | ROk ch' => ROk (VN s v d w m ch')
                                      end
                 end).
    change (rmap _ (map vn_clear_new g)) with (rmap h (map vn_clear_new g)).
    destruct (rmap_dich_v h (fun x => forall e, NewOK (st_children l (vn_sid x)) (map erase (vn_ch x)) e)
                (fun x e => ~ NewOK (st_children l (vn_sid x)) (map erase (vn_ch x)) e) g) as [[E HA]|[e [E [x [Hx HB]]]]].
    - intros x Hx. pose proof (Hn x Hx) as Hx2. pose proof (vfsize_in x g Hx) as Hv.
      destruct x as [s v d w m ch]. cbn [hist_node] in Hx2. apply andb_true_iff in Hx2. destruct Hx2 as [Hx2 Hx4].
      apply andb_true_iff in Hx2. destruct Hx2 as [_ Hx3].
      assert (Hs : (vfsize ch < k)%nat) by (cbn [vsize] in Hv; unfold vfsize; lia).
      cbn [vn_clear_new h vn_sid vn_ch vclr].
      destruct (IH (st_children l s) ch Hx3 Hx4 Hs) as [[E HA]|[e [E HB]]]; rewrite E.
      + left. split; [reflexivity|exact HA].
      + right. exists e. split; [reflexivity|exact HB].
    - left. split; [exact E|]. intro e. apply NewOK_iff. split; [split; intros _; [exact Ec|exact Edup]|].
      intros x Hx. apply (HA x Hx).
    - right. exists e. split; [exact E|]. intro H. apply NewOK_iff in H. apply HB, (proj2 H x Hx).
  Qed.

  (* ----------------------------------------------------------------------------------------- *)
  (* no duplicate instance (as lyd_validate_duplicates sees it) = the three RFC rules             *)
  (* ----------------------------------------------------------------------------------------- *)

  Lemma find_filter_hd {A} (p : A -> bool) l : find p l = hd_error (filter p l).
  Proof. induction l as [|x l IH]; cbn [find filter]; [reflexivity|]. destruct (p x); [reflexivity|exact IH]. Qed.

  Lemma single_insts ch k :
    single_ctx vs [] ch = true -> multi (vs_info vs) k = false -> (length (insts ch k) <= 1)%nat.
  Proof.
    unfold single_ctx, insts. intros H Hm. induction ch as [|x ch IH]; cbn [filter length]; [lia|].
    cbn [pairwise] in H. apply andb_true_iff in H. destruct H as [H1 H2]. specialize (IH H2).
    destruct (d_sid x =? k) eqn:E; [|exact IH]. cbn [length].
    destruct (filter (fun d => d_sid d =? k) ch) as [|y r] eqn:Ef; [cbn; lia|].
    exfalso. assert (Hy : In y (filter (fun d => d_sid d =? k) ch)) by (rewrite Ef; left; reflexivity).
    apply filter_In in Hy. destruct Hy as [Hy1 Hy2]. rewrite forallb_forall in H1. specialize (H1 y Hy1).
    unfold same_single in H1. apply N.eqb_eq in E. apply N.eqb_eq in Hy2. rewrite E, Hy2, N.eqb_refl, Hm in H1. discriminate.
  Qed.

  Lemma child_val_insts ch k :
    child_val ch k = match insts ch k with c :: _ => d_val c | [] => [] end.
  Proof.
    unfold child_val, find_sid, insts. rewrite find_filter_hd. destruct (filter _ ch); reflexivity.
  Qed.

  Lemma common_single a b : (length a <= 1)%nat -> (length b <= 1)%nat -> common a b = true ->
    exists x, a = [x] /\ b = [x].
  Proof.
    unfold common. intros Ha Hb H. apply existsb_exists in H. destruct H as [x [Hx H]].
    apply existsb_exists in H. destruct H as [y [Hy E]]. apply beq_bytes_eq in E. subst y.
    destruct a as [|x1 [|? ?]]; [destruct Hx| |cbn in Ha; lia].
    destruct b as [|y1 [|? ?]]; [destruct Hy| |cbn in Hb; lia].
    destruct Hx as [->|[]]. destruct Hy as [->|[]]. exists x. split; reflexivity.
  Qed.

  Definition key_kinds_ok : Prop :=
    forall s k, In k (si_keys (info vs s)) -> multi (vs_info vs) k = false.

  Lemma same_single_conflict a b : same_single vs a b = true -> conflict a b = true.
  Proof.
    unfold same_single, conflict, sinst, multi, dup_inst, kind, info, kind_of.
    intro H. apply andb_true_iff in H. destruct H as [H1 H2]. rewrite H1. cbn [andb].
    destruct (si_kind (sget (vs_info vs) (d_sid a))); cbn in *; try reflexivity; discriminate.
  Qed.

  Lemma same_llval_conflict a b : same_llval vs a b = true -> conflict a b = true.
  Proof.
    unfold same_llval, conflict, sinst, dup_inst, kind, info.
    intro H. repeat (apply andb_true_iff in H; destruct H as [H ?]). rewrite H. cbn [andb].
    destruct (si_kind (sget (vs_info vs) (d_sid a))); try discriminate. rewrite H1, H0. reflexivity.
  Qed.

  Lemma same_keys_conflict a b :
    key_kinds_ok -> single_ctx vs [] (d_ch a) = true -> single_ctx vs [] (d_ch b) = true ->
    same_keys vs a b = true -> conflict a b = true.
  Proof.
    intros Hk Ha Hb H. unfold same_keys in H. repeat (apply andb_true_iff in H; destruct H as [H ?]).
    unfold conflict, sinst. rewrite H. cbn [andb].
    unfold keyed_list, kind, info in H1. unfold dup_inst, kind, info.
    destruct (si_kind (sget (vs_info vs) (d_sid a))) eqn:Ek; try discriminate.
    destruct (si_keys (sget (vs_info vs) (d_sid a))) as [|k0 ks] eqn:Eks; [discriminate|]. cbn [negb andb].
    apply beq_bytes_list_eq. unfold key_vals. apply N.eqb_eq in H. rewrite <- H. apply map_ext_in. intros k Hin.
    rewrite forallb_forall in H0. unfold info in H0. rewrite Eks in H0. rewrite Eks in Hin. specialize (H0 k Hin).
    assert (Hm : multi (vs_info vs) k = false).
    { apply (Hk (d_sid a)). unfold info. rewrite Eks. exact Hin. }
    unfold kvals in H0.
    destruct (common_single _ _ (eq_ind _ (fun n => (n <= 1)%nat) (single_insts _ k Ha Hm) _ (eq_sym (map_length _ _)))
                (eq_ind _ (fun n => (n <= 1)%nat) (single_insts _ k Hb Hm) _ (eq_sym (map_length _ _))) H0) as [x [E1 E2]].
    rewrite !child_val_insts.
    destruct (insts (d_ch a) k) as [|ca ?]; [discriminate|]. destruct (insts (d_ch b) k) as [|cb ?]; [discriminate|].
    cbn [map] in E1, E2. inversion E1. inversion E2. congruence.
  Qed.

  Lemma has_sid_find ch k : has_sid ch k = true -> exists c, find_sid ch k = Some c /\ In c (insts ch k).
  Proof.
    unfold has_sid, find_sid, insts. intro H. apply existsb_exists in H. destruct H as [d [Hd E]].
    destruct (find (fun c => d_sid c =? k) ch) as [c|] eqn:Ef.
    - exists c. split; [reflexivity|]. apply find_some in Ef. apply filter_In. exact Ef.
    - apply (find_none _ _ Ef) in Hd. congruence.
  Qed.

  Lemma conflict_rules a b :
    forallb (has_sid (d_ch a)) (si_keys (info vs (d_sid a))) = true ->
    forallb (has_sid (d_ch b)) (si_keys (info vs (d_sid b))) = true ->
    conflict a b = true -> same_single vs a b = true \/ same_keys vs a b = true \/ same_llval vs a b = true.
  Proof.
    intros Ka Kb H. unfold conflict, sinst in H. apply andb_true_iff in H. destruct H as [H Hs].
    apply andb_true_iff in Hs. destruct Hs as [H0 H1].
    apply negb_true_iff in H. unfold dup_inst, kind, info in *.
    unfold same_single, same_keys, same_llval, multi, kind_of, keyed_list, kind, info.
    rewrite H0. cbn [andb].
    destruct (si_kind (sget (vs_info vs) (d_sid a))) eqn:Ek; cbn [negb andb]; try (left; reflexivity).
    - right. right. apply negb_false_iff in H. rewrite H, H1. reflexivity.
    - right. left. destruct (si_keys (sget (vs_info vs) (d_sid a))) as [|k0 ks] eqn:Eks; [discriminate|]. cbn [andb].
      apply forallb_forall. intros k Hin. apply beq_bytes_list_eq in H1. unfold key_vals in H1.
      apply N.eqb_eq in H0. rewrite <- H0 in *. rewrite Eks in *.
      assert (Hv : child_val (d_ch a) k = child_val (d_ch b) k).
      { clear -H1 Hin. induction (k0 :: ks) as [|x l IH]; [destruct Hin|]. cbn [map] in H1. inversion H1.
        destruct Hin as [->|Hin]; [assumption|apply IH; assumption]. }
      rewrite forallb_forall in Ka, Kb.
      destruct (has_sid_find _ _ (Ka k Hin)) as [ca [Fa Ia]]. destruct (has_sid_find _ _ (Kb k Hin)) as [cb [Fb Ib]].
      unfold child_val in Hv. rewrite Fa, Fb in Hv. unfold common, kvals. apply existsb_exists.
      exists (d_val ca). split; [apply in_map, Ia|]. apply existsb_exists. exists (d_val cb).
      split; [apply in_map, Ib|]. apply beq_bytes_eq. exact Hv.
  Qed.

  Lemma keys_in f x : rfc_keys vs f = true -> In x f ->
    forallb (has_sid (d_ch x)) (si_keys (info vs (d_sid x))) = true /\ rfc_keys vs (d_ch x) = true.
  Proof.
    unfold rfc_keys at 1. rewrite forallb_forall. intros H Hx. specialize (H x Hx). destruct x as [s v d m ch].
    cbn [keys_node] in H. apply andb_true_iff in H. exact H.
  Qed.

  Lemma single_ctx_l l l' f : single_ctx vs l f = single_ctx vs l' f.
  Proof. reflexivity. Qed.

  Lemma dup_rules : key_kinds_ok -> forall f l, rfc_keys vs f = true ->
    (all_ctx dup_ctx l f = true <->
     all_ctx (single_ctx vs) l f = true /\ all_ctx (keyuniq_ctx vs) l f = true /\ all_ctx (llval_ctx vs) l f = true).
  Proof.
    intro Hk. induction f as [f IH] using forest_ind'. intros l Hkeys.
    rewrite !all_ctx_iff. split.
    - intros [H1 H2].
      assert (Hch : forall n, In n f ->
                all_ctx (single_ctx vs) (st_children l (d_sid n)) (d_ch n) = true /\
                all_ctx (keyuniq_ctx vs) (st_children l (d_sid n)) (d_ch n) = true /\
                all_ctx (llval_ctx vs) (st_children l (d_sid n)) (d_ch n) = true).
      { intros n Hn. apply (IH n Hn); [apply (keys_in f n Hkeys Hn)|apply H2, Hn]. }
      unfold dup_ctx in H1. repeat split.
      + unfold single_ctx. eapply pairwise_impl; [|exact H1]. intros a b _ _ Hc. apply negb_true_iff in Hc.
        apply negb_true_iff. destruct (same_single vs a b) eqn:E; [|reflexivity]. rewrite (same_single_conflict a b E) in Hc. discriminate.
      + intros n Hn. apply (Hch n Hn).
      + unfold keyuniq_ctx. eapply pairwise_impl; [|exact H1]. intros a b Ha Hb Hc. apply negb_true_iff in Hc.
        apply negb_true_iff. destruct (same_keys vs a b) eqn:E; [|reflexivity].
        destruct (Hch a Ha) as [Sa _]. destruct (Hch b Hb) as [Sb _]. apply all_ctx_iff in Sa. apply all_ctx_iff in Sb.
        rewrite (same_keys_conflict a b Hk (proj1 Sa) (proj1 Sb) E) in Hc. discriminate.
      + intros n Hn. apply (Hch n Hn).
      + unfold llval_ctx. eapply pairwise_impl; [|exact H1]. intros a b _ _ Hc. apply negb_true_iff in Hc.
        apply negb_true_iff. destruct (same_llval vs a b) eqn:E; [|reflexivity]. rewrite (same_llval_conflict a b E) in Hc. discriminate.
      + intros n Hn. apply (Hch n Hn).
    - intros [[S1 S2] [[K1 K2] [L1 L2]]]. split.
      + unfold dup_ctx. unfold single_ctx in S1. unfold keyuniq_ctx in K1. unfold llval_ctx in L1.
        pose proof (pairwise_and _ _ _ (pairwise_and _ _ _ S1 K1) L1) as P.
        eapply pairwise_impl; [|exact P]. cbn beta. intros a b Ha Hb Hc.
        repeat (apply andb_true_iff in Hc; destruct Hc as [Hc ?]). apply negb_true_iff in Hc, H, H0.
        apply negb_true_iff. destruct (conflict a b) eqn:E; [|reflexivity].
        destruct (conflict_rules a b (proj1 (keys_in f a Hkeys Ha)) (proj1 (keys_in f b Hkeys Hb)) E) as [X|[X|X]]; congruence.
      + intros n Hn. apply (IH n Hn); [apply (keys_in f n Hkeys Hn)|]. repeat split; [apply S2|apply K2|apply L2]; exact Hn.
  Qed.

  (* ----------------------------------------------------------------------------------------- *)
  (* lyd_validate_final_r: per error class, what the sequential checks establish                  *)
  (* ----------------------------------------------------------------------------------------- *)
  (* lyd_validate_unique as coded, as a boolean on the instances of list s (schema children ls) *)
  Definition uq_impl (f : forest) (s : sid) (ls : list stree) : bool :=
    match kind vs s with
    | KList => pairwise (fun a b => negb (existsb (fun u => uq_equal vs ls u a b) (uniques_of vs s))) (insts f s)
    | _ => true
    end.

  (* the constraint of class e on schema node s (schema children ch) / on a choice, in context f *)
  Definition Pn (e : verr) : forest -> sid -> list stree -> bool :=
    match e with
    | ENoMand => mand_node vs
    | ENoMin => min_node vs
    | ENoMax => fun f s _ => max_node vs f s
    | ENoUniq => uq_impl
    | _ => fun _ _ _ => true
    end.
  Definition Pc (e : verr) : forest -> bool -> list stree -> bool :=
    match e with
    | ENoMandChoice => mand_choice
    | _ => fun _ _ _ => true
    end.

  Definition nokb (f : forest) (e : verr) (t : stree) : bool :=
    match t with TNode s ch => Pn e f s ch | _ => true end.

  Fixpoint cokb (f : forest) (e : verr) (t : stree) {struct t} : bool :=
    match t with
    | TChoice _ m cs =>
        Pc e f m cs &&
        (fix fc (l : list stree) : bool :=
           match l with
           | [] => true
           | c :: r =>
               if sub_has_data f c then
                 match c with
                 | TCase _ _ ch => forallb (fun t' => cokb f e t' && nokb f e t') ch
                 | _ => true
                 end
               else fc r
           end) cs
    | _ => true
    end.

  Fixpoint vfb (e : verr) (t : stree) {struct t} : bool :=
    match t with
    | TNode s ch =>
        if is_npc vs s then forallb (fun t' => cokb [] e t' && nokb [] e t') ch && forallb (vfb e) ch else true
    | TChoice _ _ cs => forallb (fun c => match c with TCase _ true ch => forallb (vfb e) ch | _ => true end) cs
    | TCase _ _ _ => true
    end.

  Lemma pairwise_all_true {A} (l : list A) : pairwise (fun _ _ => true) l = true.
  Proof.
    induction l as [|x l IH]; cbn [pairwise]; [reflexivity|]. rewrite IH, andb_true_r.
    apply forallb_forall. reflexivity.
  Qed.

  Lemma minmax_eq f s :
    minmax vs f s =
    vand (chk (si_min (info vs s) <=? count f s) ENoMin)
         (chk (match si_max (info vs s) with Some m => count f s <=? m | None => true end) ENoMax).
  Proof.
    unfold minmax. destruct (count f s <? si_min (info vs s)) eqn:E1.
    - replace (si_min (info vs s) <=? count f s) with false by (symmetry; apply N.leb_gt; apply N.ltb_lt; exact E1). reflexivity.
    - replace (si_min (info vs s) <=? count f s) with true by (symmetry; apply N.leb_le; apply N.ltb_ge; exact E1).
      cbn [chk vand]. destruct (si_max (info vs s)) as [m|]; [|reflexivity].
      destruct (m <? count f s) eqn:E2.
      + replace (count f s <=? m) with false by (symmetry; apply N.leb_gt; apply N.ltb_lt; exact E2). reflexivity.
      + replace (count f s <=? m) with true by (symmetry; apply N.leb_le; apply N.ltb_ge; exact E2). reflexivity.
  Qed.

  Lemma mm_eq f s :
    (match si_min (info vs s), si_max (info vs s) with 0, None => VOk | _, _ => minmax vs f s end) = minmax vs f s.
  Proof.
    destruct (si_min (info vs s)) eqn:E1; [|reflexivity]. destruct (si_max (info vs s)) eqn:E2; [reflexivity|].
    unfold minmax. rewrite E1, E2. destruct (count f s); reflexivity.
  Qed.

  Lemma sr_node_spec f t : vspec (sr_node vs f t) (fun e => nokb f e t = true).
  Proof.
    destruct t as [s ch|c m cs|c d ch]; cbn [sr_node nokb];
      try (eapply vspec_ext; [apply vspec_ok|intro e; split; auto]).
    destruct (kind vs s) as [p| | | |] eqn:Ek.
    - eapply vspec_ext; [apply vspec_ok|]. intro e. split; [intros _|auto].
      destruct e; cbn [Pn]; unfold mand_node, min_node, max_node, uq_impl; rewrite ?Ek; reflexivity.
    - eapply vspec_ext; [apply vspec_chk|]. intro e. cbn beta. split.
      + intro H. destruct e; cbn [Pn]; unfold mand_node, min_node, max_node, uq_impl; rewrite ?Ek; try reflexivity.
        apply H. reflexivity.
      + intros H ->. cbn [Pn] in H. unfold mand_node in H. rewrite Ek in H. exact H.
    - rewrite mm_eq, minmax_eq. eapply vspec_ext; [apply vspec_vand'; apply vspec_chk|]. intro e. cbn beta. split.
      + intros [H1 H2]. destruct e; cbn [Pn]; unfold mand_node, min_node, max_node, uq_impl; rewrite ?Ek; try reflexivity;
          [apply H1; reflexivity|]. specialize (H2 eq_refl). destruct (si_max (info vs s)); [exact H2|reflexivity].
      + intro H. split; intros ->; cbn [Pn] in H; [unfold min_node in H|unfold max_node in H]; rewrite Ek in H; [exact H|].
        destruct (si_max (info vs s)); [exact H|reflexivity].
    - rewrite mm_eq, minmax_eq. unfold uniq_check.
      eapply vspec_ext.
      + apply vspec_vand'; [apply vspec_vand'; apply vspec_chk|].
        instantiate (1 := fun e => e = ENoUniq -> uq_impl f s ch = true). unfold uq_impl. rewrite Ek.
        destruct (uniques_of vs s) as [|u us] eqn:Eu.
        * eapply vspec_ext; [apply vspec_ok|]. intro e. split; [intros _ _|auto]. apply pairwise_all_true.
        * apply vspec_chk.
      + intro e. cbn beta. split.
        * intros [[H1 H2] H3]. destruct e; cbn [Pn]; unfold mand_node, min_node, max_node; rewrite ?Ek; try reflexivity;
            [apply H1; reflexivity| |apply H3; reflexivity]. specialize (H2 eq_refl). destruct (si_max (info vs s)); [exact H2|reflexivity].
        * intro H. split; [split|]; intros ->; cbn [Pn] in H; [unfold min_node in H|unfold max_node in H|exact H]; rewrite Ek in H; [exact H|].
          destruct (si_max (info vs s)); [exact H|reflexivity].
    - eapply vspec_ext; [apply vspec_chk|]. intro e. cbn beta. split.
      + intro H. destruct e; cbn [Pn]; unfold mand_node, min_node, max_node, uq_impl; rewrite ?Ek; try reflexivity.
        apply H. reflexivity.
      + intros H ->. cbn [Pn] in H. unfold mand_node in H. rewrite Ek in H. exact H.
  Qed.

  Lemma forall_and_bool {A} (p q : A -> bool) l :
    ((forall x, In x l -> p x = true) /\ (forall x, In x l -> q x = true)) <->
    forallb (fun x => p x && q x) l = true.
  Proof.
    rewrite forallb_forall. split.
    - intros [H1 H2] x Hx. rewrite (H1 x Hx), (H2 x Hx). reflexivity.
    - intro H. split; intros x Hx; specialize (H x Hx); apply andb_true_iff in H; apply H.
  Qed.

  Lemma sr_choice_spec f t : vspec (sr_choice vs f t) (fun e => cokb f e t = true).
  Proof.
    assert (G : (vspec (sr_choice vs f t) (fun e => cokb f e t = true)) /\
                match t with
                | TCase _ _ ch => forall t', In t' ch -> vspec (sr_choice vs f t') (fun e => cokb f e t' = true)
                | _ => True
                end); [|apply G].
    induction t as [s ch IH|cid m cs IH|c d ch IH] using stree_ind'.
    - split; [|exact I]. cbn [sr_choice cokb]. eapply vspec_ext; [apply vspec_ok|intro e; split; auto].
    - split; [|exact I]. cbn [sr_choice cokb]. rewrite Forall_forall in IH.
      eapply vspec_ext.
      + apply vspec_vand'; [apply vspec_chk|].
        instantiate (1 := fun e =>
          (fix fc (l : list stree) : bool :=
             match l with
             | [] => true
             | c :: r => if sub_has_data f c
                         then match c with TCase _ _ ch => forallb (fun t' => cokb f e t' && nokb f e t') ch | _ => true end
                         else fc r
             end) cs = true).
        clear -IH. induction cs as [|c r IHr].
        * eapply vspec_ext; [apply vspec_ok|intro e; split; auto].
        * destruct (sub_has_data f c).
          -- destruct c as [s ch|ci mi csi|ci di ch]; try (eapply vspec_ext; [apply vspec_ok|intro e; split; auto]).
             destruct (IH _ (or_introl eq_refl)) as [_ Hc].
             eapply vspec_ext; [apply vspec_vand'; apply vspec_vall; intros x Hx; [apply (Hc x Hx)|apply sr_node_spec]|].
             intro e. cbn beta. apply forall_and_bool.
          -- apply IHr. intros x Hx. apply IH. right. exact Hx.
      + intro e. cbn beta. rewrite andb_true_iff. split.
        * intros [H1 H2]. split; [|exact H2]. destruct e; cbn [Pc]; try reflexivity. apply H1. reflexivity.
        * intros [H1 H2]. split; [|exact H2]. intros ->. exact H1.
    - rewrite Forall_forall in IH. split.
      + cbn [sr_choice cokb]. eapply vspec_ext; [apply vspec_ok|intro e; split; auto].
      + intros t' Ht'. apply (IH t' Ht').
  Qed.

  Lemma schema_r_spec f l :
    vspec (schema_r vs f l) (fun e => forallb (fun t => cokb f e t && nokb f e t) l = true).
  Proof.
    unfold schema_r. eapply vspec_ext.
    - apply vspec_vand'; apply vspec_vall; intros x _; [apply sr_choice_spec|apply sr_node_spec].
    - intro e. cbn beta. apply forall_and_bool.
  Qed.

  Lemma vf_spec t : vspec (vf vs t) (fun e => vfb e t = true).
  Proof.
    assert (G : (vspec (vf vs t) (fun e => vfb e t = true)) /\
                match t with
                | TCase _ _ ch => forall t', In t' ch -> vspec (vf vs t') (fun e => vfb e t' = true)
                | _ => True
                end); [|apply G].
    induction t as [s ch IH|cid m cs IH|c d ch IH] using stree_ind'; rewrite Forall_forall in IH.
    - split; [|exact I]. cbn [vf vfb]. destruct (is_npc vs s).
      + eapply vspec_ext; [apply vspec_vand'; [apply schema_r_spec|apply vspec_vall; intros x Hx; apply (IH x Hx)]|].
        intro e. cbn beta. rewrite andb_true_iff, (forallb_forall (vfb e)). reflexivity.
      + eapply vspec_ext; [apply vspec_ok|intro e; split; auto].
    - split; [|exact I]. cbn [vf vfb].
      eapply vspec_ext.
      + apply vspec_vall. intros c Hc.
        instantiate (1 := fun c e => match c with TCase _ true ch => forallb (vfb e) ch | _ => true end = true).
        destruct c as [s ch|ci mi csi|ci [|] ch]; try (eapply vspec_ext; [apply vspec_ok|intro e; split; auto]).
        destruct (IH _ Hc) as [_ H].
        eapply vspec_ext; [apply vspec_vall; intros x Hx; apply (H x Hx)|]. intro e. cbn beta. rewrite forallb_forall. reflexivity.
      + intro e. cbn beta. rewrite forallb_forall. reflexivity.
    - split.
      + cbn [vf vfb]. eapply vspec_ext; [apply vspec_ok|intro e; split; auto].
      + intros t' Ht'. apply (IH t' Ht').
  Qed.

  (* ----------------------------------------------------------------------------------------- *)
  (* the sequential checks of one context = the RFC enforcement rule (req)                        *)
  (* ----------------------------------------------------------------------------------------- *)
  Lemma existsb_flat_map {A B} (p : B -> bool) (g : A -> list B) l :
    existsb p (flat_map g l) = existsb (fun x => existsb p (g x)) l.
  Proof. induction l as [|x l IH]; cbn [flat_map existsb]; [reflexivity|]. rewrite existsb_app, IH. reflexivity. Qed.

  Lemma forallb_flat_map {A B} (p : B -> bool) (g : A -> list B) l :
    forallb p (flat_map g l) = forallb (fun x => forallb p (g x)) l.
  Proof. induction l as [|x l IH]; cbn [flat_map forallb]; [reflexivity|]. rewrite forallb_app, IH. reflexivity. Qed.

  Lemma sub_has_data_case f c d ch : sub_has_data f (TCase c d ch) = existsb (sub_has_data f) ch.
  Proof. unfold sub_has_data. cbn [st_sids]. apply existsb_flat_map. Qed.

  Lemma sub_has_data_choice f c m cs : sub_has_data f (TChoice c m cs) = existsb (sub_has_data f) cs.
  Proof. unfold sub_has_data. cbn [st_sids]. apply existsb_flat_map. Qed.

  Lemma sub_has_data_node f s ch : sub_has_data f (TNode s ch) = has_sid f s.
  Proof. unfold sub_has_data. cbn [st_sids existsb]. apply orb_false_r. Qed.

  Lemma sub_has_data_nil t : sub_has_data [] t = false.
  Proof. unfold sub_has_data. induction (st_sids t); cbn; [reflexivity|assumption]. Qed.

  Lemma existsb_false {A} (p : A -> bool) l : (forall x, In x l -> p x = false) -> existsb p l = false.
  Proof. intro H. induction l as [|x l IH]; cbn; [reflexivity|]. rewrite (H x (or_introl eq_refl)). apply IH. intros y Hy. apply H. right. exact Hy. Qed.

  Lemma existsb_false_inv {A} (p : A -> bool) l : existsb p l = false -> forall x, In x l -> p x = false.
  Proof.
    intros H x Hx. destruct (p x) eqn:E; [|reflexivity].
    assert (existsb p l = true) by (apply existsb_exists; exists x; split; assumption). congruence.
  Qed.

  Section Class.
    Variable e : verr.

    Lemma req_false f t : req vs (Pn e) (Pc e) f false t = true.
    Proof.
      induction t as [s ch IH|cid m cs IH|c d ch IH] using stree_ind'; cbn [req negb orb andb]; rewrite Forall_forall in IH.
      - destruct (kind vs s) as [[|]| | | |]; try reflexivity. rewrite orb_true_r. reflexivity.
      - apply forallb_forall. exact IH.
      - apply forallb_forall. exact IH.
    Qed.

    (* in a context without data a node that is not mandatory is satisfied *)
    Lemma Pn_nil s ch : mand_t vs (TNode s ch) = false -> Pn e [] s ch = true.
    Proof.
      cbn [mand_t]. intro H. destruct e; cbn [Pn]; try reflexivity.
      - unfold mand_node. cbn [has_sid existsb]. destruct (kind vs s) as [[|]| | | |]; try reflexivity; rewrite H; reflexivity.
      - unfold min_node, count. cbn [insts filter length]. destruct (kind vs s) as [[|]| | | |]; try reflexivity;
          apply negb_false_iff, N.eqb_eq in H; rewrite H; reflexivity.
      - unfold max_node, count. cbn [insts filter length].
        destruct (kind vs s) as [[|]| | | |]; try reflexivity; destruct (si_max (info vs s)) as [[|?]|]; reflexivity.
      - unfold uq_impl. cbn [insts filter pairwise]. destruct (kind vs s); reflexivity.
    Qed.

    Lemma cokb_nil_fc cs :
      (fix fc (l : list stree) : bool :=
         match l with
         | [] => true
         | c :: r => if sub_has_data [] c
                     then match c with TCase _ _ ch => forallb (fun t' => cokb [] e t' && nokb [] e t') ch | _ => true end
                     else fc r
         end) cs = true.
    Proof. induction cs as [|c r IH]; [reflexivity|]. rewrite sub_has_data_nil. exact IH. Qed.

    (* 7.9.3 at work: what is not a mandatory node passes every check of an empty context *)
    Lemma harmless t : mand_t vs t = false -> dflt_ok vs t = true ->
      cokb [] e t && nokb [] e t && vfb e t = true.
    Proof.
      assert (G : (mand_t vs t = false -> dflt_ok vs t = true -> cokb [] e t && nokb [] e t && vfb e t = true) /\
                  match t with
                  | TCase _ _ ch => forall t', In t' ch -> mand_t vs t' = false -> dflt_ok vs t' = true ->
                                               cokb [] e t' && nokb [] e t' && vfb e t' = true
                  | _ => True
                  end); [|apply G].
      induction t as [s ch IH|cid m cs IH|c d ch IH] using stree_ind'; rewrite Forall_forall in IH.
      - split; [|exact I]. intros Hm Hd. cbn [cokb nokb vfb andb]. rewrite (Pn_nil s ch Hm). cbn [andb].
        unfold is_npc. cbn [mand_t dflt_ok] in Hm, Hd. destruct (kind vs s) as [[|]| | | |]; try reflexivity.
        rewrite forallb_forall in Hd.
        assert (H : forall x, In x ch -> cokb [] e x && nokb [] e x && vfb e x = true).
        { intros x Hx. apply (IH x Hx); [apply (existsb_false_inv _ _ Hm x Hx)|apply Hd, Hx]. }
        apply andb_true_iff. split; apply forallb_forall; intros x Hx; specialize (H x Hx);
          apply andb_true_iff in H; apply H.
      - split; [|exact I]. cbn [mand_t dflt_ok]. intros Hm Hd. subst m. cbn [cokb nokb vfb].
        rewrite cokb_nil_fc. rewrite andb_true_r.
        assert (Hp : Pc e [] false cs = true) by (destruct e; reflexivity). rewrite Hp. cbn [andb].
        rewrite forallb_forall in Hd. apply forallb_forall. intros c Hc.
        destruct c as [s ch|ci mi csi|ci [|] ch]; try reflexivity.
        destruct (IH _ Hc) as [_ H]. specialize (Hd _ Hc). cbn [dflt_ok negb orb] in Hd. apply andb_true_iff in Hd.
        destruct Hd as [Hd1 Hd2]. apply negb_true_iff in Hd1. rewrite forallb_forall in Hd2.
        apply forallb_forall. intros x Hx.
        specialize (H x Hx (existsb_false_inv _ _ Hd1 x Hx) (Hd2 x Hx)). apply andb_true_iff in H. apply H.
      - split; [intros _ _; reflexivity|]. intros t' Ht'. apply (IH t' Ht').
    Qed.
  End Class.

  (* the inner loops as named functions *)
  Fixpoint fcb (f : forest) (e : verr) (l : list stree) : bool :=
    match l with
    | [] => true
    | c :: r => if sub_has_data f c
                then match c with TCase _ _ ch => forallb (fun t' => cokb f e t' && nokb f e t') ch | _ => true end
                else fcb f e r
    end.

  Lemma cokb_choice f e cid m cs : cokb f e (TChoice cid m cs) = Pc e f m cs && fcb f e cs.
  Proof. cbn [cokb]. f_equal. induction cs as [|c r IH]; cbn [fcb]; [reflexivity|]. rewrite IH. reflexivity. Qed.

  Fixpoint npv_go (f : forest) (l : list stree) (chd seen : bool) : list stree :=
    match l with
    | [] => []
    | c :: r =>
        match c with
        | TCase _ d ch =>
            (if (if chd then sub_has_data f c && negb seen else d) then flat_map (npv vs f) ch else []) ++
            npv_go f r chd (seen || sub_has_data f c)
        | _ => npv_go f r chd seen
        end
    end.

  Lemma npv_choice f cid m cs : npv vs f (TChoice cid m cs) = npv_go f cs (existsb (sub_has_data f) cs) false.
  Proof.
    cbn [npv]. generalize (existsb (sub_has_data f) cs) at 1 2. generalize false.
    induction cs as [|c r IH]; intros seen chd; cbn [npv_go]; [reflexivity|].
    destruct c as [s ch|ci mi csi|ci di ch]; rewrite IH; reflexivity.
  Qed.

  Lemma forallb_andb {A} (p q : A -> bool) l : forallb p l && forallb q l = forallb (fun x => p x && q x) l.
  Proof.
    induction l as [|x l IH]; cbn [forallb]; [reflexivity|]. rewrite <- IH.
    destruct (p x), (q x), (forallb p l), (forallb q l); reflexivity.
  Qed.

  Lemma forallb_ext_in {A} (p q : A -> bool) l : (forall x, In x l -> p x = q x) -> forallb p l = forallb q l.
  Proof.
    intro H. induction l as [|x l IH]; cbn [forallb]; [reflexivity|]. rewrite (H x (or_introl eq_refl)), IH; [reflexivity|].
    intros y Hy. apply H. right. exact Hy.
  Qed.

  Lemma forallb_true {A} (p : A -> bool) l : (forall x, In x l -> p x = true) -> forallb p l = true.
  Proof. intro H. apply forallb_forall. exact H. Qed.

  Section Class2.
    Variable e : verr.

    Lemma npv_nil_vfb t : forallb (vfb e) (npv vs [] t) = vfb e t.
    Proof.
      assert (G : forallb (vfb e) (npv vs [] t) = vfb e t /\
                  match t with
                  | TCase _ _ ch => forall t', In t' ch -> forallb (vfb e) (npv vs [] t') = vfb e t'
                  | _ => True
                  end); [|apply G].
      induction t as [s ch IH|cid m cs IH|c d ch IH] using stree_ind'; rewrite Forall_forall in IH.
      - split; [|exact I]. cbn [npv has_sid existsb negb]. rewrite andb_true_r.
        destruct (is_npc vs s) eqn:En.
        + cbn [forallb]. apply andb_true_r.
        + cbn [forallb vfb]. rewrite En. reflexivity.
      - split; [|exact I]. rewrite npv_choice. cbn [vfb].
        rewrite (existsb_false _ cs (fun x _ => sub_has_data_nil x)).
        assert (Hg : forall seen, forallb (vfb e) (npv_go [] cs false seen) =
                       forallb (fun c => match c with TCase _ true ch => forallb (vfb e) ch | _ => true end) cs); [|apply Hg].
        induction cs as [|c r IHr]; intro seen; cbn [npv_go forallb]; [reflexivity|].
        destruct c as [s ch|ci mi csi|ci di ch].
        * apply IHr. intros x Hx. apply IH. right. exact Hx.
        * apply IHr. intros x Hx. apply IH. right. exact Hx.
        * rewrite forallb_app, (IHr (fun x Hx => IH x (or_intror Hx))). f_equal.
          destruct (IH _ (or_introl eq_refl)) as [_ H]. destruct di; [|reflexivity].
          rewrite forallb_flat_map. apply forallb_ext_in. exact H.
      - split; [reflexivity|]. intros t' Ht'. apply (IH t' Ht').
    Qed.

    Lemma npv_nodata f t : sub_has_data f t = false -> npv vs f t = npv vs [] t.
    Proof.
      assert (G : (sub_has_data f t = false -> npv vs f t = npv vs [] t) /\
                  match t with
                  | TCase _ _ ch => forall t', In t' ch -> sub_has_data f t' = false -> npv vs f t' = npv vs [] t'
                  | _ => True
                  end); [|apply G].
      induction t as [s ch IH|cid m cs IH|c d ch IH] using stree_ind'; rewrite Forall_forall in IH.
      - split; [|exact I]. rewrite sub_has_data_node. intro H. cbn [npv has_sid existsb]. rewrite H. reflexivity.
      - split; [|exact I]. rewrite sub_has_data_choice. intro H. rewrite !npv_choice, H.
        rewrite (existsb_false _ cs (fun x _ => sub_has_data_nil x)).
        pose proof (existsb_false_inv _ _ H) as Hc. clear H.
        assert (Hg : forall s1 s2, npv_go f cs false s1 = npv_go [] cs false s2); [|apply Hg].
        induction cs as [|c r IHr]; intros s1 s2; cbn [npv_go]; [reflexivity|].
        destruct c as [s ch|ci mi csi|ci di ch].
        * apply IHr; intros x Hx; [apply IH|apply Hc]; right; exact Hx.
        * apply IHr; intros x Hx; [apply IH|apply Hc]; right; exact Hx.
        * rewrite (IHr (fun x Hx => IH x (or_intror Hx)) (fun x Hx => Hc x (or_intror Hx)) (s1 || sub_has_data f (TCase ci di ch))
                     (s2 || sub_has_data [] (TCase ci di ch))).
          f_equal. destruct di; [|reflexivity].
          destruct (IH _ (or_introl eq_refl)) as [_ H]. specialize (Hc _ (or_introl eq_refl)).
          rewrite sub_has_data_case in Hc. pose proof (existsb_false_inv _ _ Hc) as Hc2.
          clear -H Hc2. induction ch as [|x ch IHc]; cbn [flat_map]; [reflexivity|].
          rewrite (H x (or_introl eq_refl) (Hc2 x (or_introl eq_refl))).
          rewrite IHc; [reflexivity| |]; intros y Hy; [apply H|apply Hc2]; right; exact Hy.
      - split; [intros _; reflexivity|]. intros t' Ht'. apply (IH t' Ht').
    Qed.

    Lemma fcb_nodata f cs : (forall c, In c cs -> sub_has_data f c = false) -> fcb f e cs = true.
    Proof.
      induction cs as [|c r IH]; intro H; cbn [fcb]; [reflexivity|]. rewrite (H c (or_introl eq_refl)).
      apply IH. intros x Hx. apply H. right. exact Hx.
    Qed.

    Lemma npv_go_seen f cs : (forall c, In c cs -> sub_has_data f c = false) -> forall seen, npv_go f cs true seen = [].
    Proof.
      induction cs as [|c r IH]; intros H seen; cbn [npv_go]; [reflexivity|].
      destruct c as [s ch|ci mi csi|ci di ch]; try (apply IH; intros x Hx; apply H; right; exact Hx).
      rewrite (H _ (or_introl eq_refl)). cbn [andb app]. apply IH. intros x Hx. apply H. right. exact Hx.
    Qed.

    Lemma req_case_nodata f c d ch : sub_has_data f (TCase c d ch) = false -> req vs (Pn e) (Pc e) f true (TCase c d ch) = true.
    Proof.
      intro H. cbn [req]. rewrite H. cbn [andb]. apply forallb_forall. intros x _. apply req_false.
    Qed.

    Definition elem_id (f : forest) (t : stree) : Prop :=
      shape false t = true -> dflt_ok vs t = true -> case_t f t = true ->
      cokb f e t && nokb f e t && forallb (vfb e) (npv vs f t) = req vs (Pn e) (Pc e) f true t.

    Lemma case_with_data f c d ch :
      (forall t', In t' ch -> elem_id f t') ->
      shape true (TCase c d ch) = true -> dflt_ok vs (TCase c d ch) = true -> case_t f (TCase c d ch) = true ->
      sub_has_data f (TCase c d ch) = true ->
      forallb (fun t' => cokb f e t' && nokb f e t') ch && forallb (vfb e) (flat_map (npv vs f) ch) =
      req vs (Pn e) (Pc e) f true (TCase c d ch).
    Proof.
      intros IH Hs Hd Hc Hdata. cbn [req]. rewrite Hdata. cbn [andb].
      rewrite forallb_flat_map, forallb_andb. apply forallb_ext_in. intros x Hx.
      cbn [shape dflt_ok case_t andb] in Hs, Hd, Hc. apply andb_true_iff in Hd. destruct Hd as [_ Hd].
      rewrite forallb_forall in Hs, Hd, Hc. apply (IH x Hx (Hs x Hx) (Hd x Hx) (Hc x Hx)).
    Qed.

    Lemma choice_data f cs :
      (forall c, In c cs -> match c with TCase _ _ ch => forall t', In t' ch -> elem_id f t' | _ => True end) ->
      (forall c, In c cs -> shape true c = true /\ dflt_ok vs c = true /\ case_t f c = true) ->
      forall seen : bool,
      (length (filter (sub_has_data f) cs) + (if seen then 1 else 0) <= 1)%nat ->
      fcb f e cs && forallb (vfb e) (npv_go f cs true seen) = forallb (req vs (Pn e) (Pc e) f true) cs.
    Proof.
      induction cs as [|c r IHr]; intros IH Hw seen Hcnt; cbn [fcb npv_go forallb]; [reflexivity|].
      destruct (Hw c (or_introl eq_refl)) as [Hs [Hd Hc]].
      destruct c as [s ch|ci mi csi|ci di ch]; [cbn in Hs; discriminate|cbn in Hs; discriminate|].
      cbn [filter] in Hcnt.
      destruct (sub_has_data f (TCase ci di ch)) eqn:Edata.
      - cbn [length] in Hcnt. assert (seen = false) by (destruct seen; [lia|reflexivity]). subst seen.
        assert (Hr : forall x, In x r -> sub_has_data f x = false).
        { intros x Hx. destruct (sub_has_data f x) eqn:Ex; [|reflexivity].
          assert (In x (filter (sub_has_data f) r)) by (apply filter_In; split; assumption).
          destruct (filter (sub_has_data f) r); [contradiction|cbn in Hcnt; lia]. }
        cbn [andb negb orb]. rewrite (npv_go_seen f r Hr), app_nil_r.
        rewrite (case_with_data f ci di ch (IH _ (or_introl eq_refl)) Hs Hd Hc Edata).
        replace (forallb (req vs (Pn e) (Pc e) f true) r) with true; [rewrite andb_true_r; reflexivity|].
        symmetry. apply forallb_forall. intros x Hx. specialize (Hr x Hx).
        destruct (Hw x (or_intror Hx)) as [Hsx _]. destruct x as [sx chx|cx mx csx|cx dx chx]; try (cbn in Hsx; discriminate).
        apply req_case_nodata. exact Hr.
      - cbn [andb app orb]. rewrite orb_false_r. rewrite (req_case_nodata f ci di ch Edata). cbn [andb].
        apply IHr; [intros x Hx; apply IH; right; exact Hx|intros x Hx; apply Hw; right; exact Hx|exact Hcnt].
    Qed.

    Lemma choice_nodata f cs :
      (forall c, In c cs -> shape true c = true /\ dflt_ok vs c = true) ->
      (forall c, In c cs -> sub_has_data f c = false) ->
      forall seen, forallb (vfb e) (npv_go f cs false seen) = true.
    Proof.
      induction cs as [|c r IHr]; intros Hw Hn seen; cbn [npv_go forallb]; [reflexivity|].
      destruct (Hw c (or_introl eq_refl)) as [Hs Hd].
      destruct c as [s ch|ci mi csi|ci di ch]; [cbn in Hs; discriminate|cbn in Hs; discriminate|].
      rewrite forallb_app. rewrite (IHr (fun x Hx => Hw x (or_intror Hx)) (fun x Hx => Hn x (or_intror Hx))), andb_true_r.
      destruct di; [|reflexivity].
      cbn [dflt_ok negb orb] in Hd. apply andb_true_iff in Hd. destruct Hd as [Hd1 Hd2]. apply negb_true_iff in Hd1.
      rewrite forallb_forall in Hd2. specialize (Hn _ (or_introl eq_refl)). rewrite sub_has_data_case in Hn.
      rewrite forallb_flat_map. apply forallb_forall. intros x Hx.
      rewrite (npv_nodata f x (existsb_false_inv _ _ Hn x Hx)), npv_nil_vfb.
      pose proof (harmless e x (existsb_false_inv _ _ Hd1 x Hx) (Hd2 x Hx)) as H. apply andb_true_iff in H. apply H.
    Qed.

    Theorem elem_identity t : forall f, elem_id f t.
    Proof.
      assert (G : (forall f, elem_id f t) /\
                  match t with
                  | TCase _ _ ch => forall t', In t' ch -> forall f, elem_id f t'
                  | _ => True
                  end); [|apply G].
      induction t as [s ch IH|cid m cs IH|c d ch IH] using stree_ind'; rewrite Forall_forall in IH.
      - split; [|exact I]. intros f Hs Hd Hc. cbn [cokb nokb npv req negb orb andb].
        unfold is_npc. cbn [shape dflt_ok negb andb] in Hs, Hd. rewrite forallb_forall in Hs, Hd.
        destruct (kind vs s) as [[|]| | | |] eqn:Ek; cbn [andb forallb]; try (rewrite !andb_true_r; reflexivity).
        destruct (has_sid f s) eqn:Eh; cbn [negb forallb orb]; [rewrite !andb_true_r; reflexivity|].
        rewrite andb_true_r. f_equal. cbn [vfb]. unfold is_npc. rewrite Ek.
        rewrite forallb_andb. apply forallb_ext_in. intros x Hx.
        rewrite <- (npv_nil_vfb x). apply (proj1 (IH x Hx) [] (Hs x Hx) (Hd x Hx) (case_t_nil x)).
      - split; [|exact I]. intros f Hs Hd Hc. rewrite cokb_choice, npv_choice. cbn [nokb req negb orb].
        rewrite andb_true_r. cbn [shape dflt_ok case_t negb andb] in Hs, Hd, Hc. apply andb_true_iff in Hc. destruct Hc as [Hc1 Hc2].
        rewrite forallb_forall in Hs, Hd, Hc2. rewrite <- andb_assoc. f_equal.
        destruct (existsb (sub_has_data f) cs) eqn:Echd.
        + apply (choice_data f cs).
          * intros c Hc. destruct c as [sx chx|cx mx csx|cx dx chx]; try exact I. intros t' Ht'. apply (proj2 (IH _ Hc) t' Ht').
          * intros c Hc. repeat split; [apply Hs|apply Hd|apply Hc2]; exact Hc.
          * apply Nat.leb_le in Hc1. lia.
        + pose proof (existsb_false_inv _ _ Echd) as Hn.
          rewrite (fcb_nodata f cs Hn), (choice_nodata f cs (fun c Hc => conj (Hs c Hc) (Hd c Hc)) Hn). cbn [andb].
          symmetry. apply forallb_forall. intros x Hx. specialize (Hs x Hx).
          destruct x as [sx chx|cx mx csx|cx dx chx]; try (cbn in Hs; discriminate). apply req_case_nodata, Hn, Hx.
      - split; [intros f Hs; cbn in Hs; discriminate|]. intros t' Ht'. apply (IH t' Ht').
    Qed.
  End Class2.

  (* ----------------------------------------------------------------------------------------- *)
  (* lyd_validate_final_r on the whole tree                                                       *)
  (* ----------------------------------------------------------------------------------------- *)
  Definition wf_l (l : list stree) : Prop := forall t, In t l -> shape false t = true /\ dflt_ok vs t = true.

  Lemma first_some_in {A B} (g : A -> option B) l b : first_some g l = Some b -> exists x, In x l /\ g x = Some b.
  Proof.
    induction l as [|x l IH]; cbn [first_some]; [discriminate|]. destruct (g x) eqn:E.
    - intro H. inversion H; subst. exists x. split; [left; reflexivity|exact E].
    - intro H. destruct (IH H) as [y [Hy Ey]]. exists y. split; [right; exact Hy|exact Ey].
  Qed.

  Lemma st_find_wf s t b ch : shape b t = true -> dflt_ok vs t = true -> st_find s t = Some ch -> wf_l ch.
  Proof.
    revert b ch. induction t as [s' c IH|cid m cs IH|c d cc IH] using stree_ind'; intros b ch Hs Hd Hf;
      cbn [st_find shape dflt_ok] in *; rewrite Forall_forall in IH.
    - destruct (s' =? s); [|discriminate]. inversion Hf; subst. apply andb_true_iff in Hs. destruct Hs as [_ Hs].
      rewrite forallb_forall in Hs, Hd. intros t Ht. split; [apply Hs|apply Hd]; exact Ht.
    - apply andb_true_iff in Hs. destruct Hs as [_ Hs]. rewrite forallb_forall in Hs, Hd.
      destruct (first_some_in _ _ _ Hf) as [x [Hx Ex]]. apply (IH x Hx true ch (Hs x Hx) (Hd x Hx) Ex).
    - apply andb_true_iff in Hs. destruct Hs as [_ Hs]. apply andb_true_iff in Hd. destruct Hd as [_ Hd].
      rewrite forallb_forall in Hs, Hd.
      destruct (first_some_in _ _ _ Hf) as [x [Hx Ex]]. apply (IH x Hx false ch (Hs x Hx) (Hd x Hx) Ex).
  Qed.

  Lemma st_children_wf l s : wf_l l -> wf_l (st_children l s).
  Proof.
    intro H. unfold st_children. destruct (first_some (st_find s) l) as [ch|] eqn:E; [|intros t []].
    destruct (first_some_in _ _ _ E) as [x [Hx Ex]]. destruct (H x Hx) as [Hs Hd]. apply (st_find_wf s x false ch Hs Hd Ex).
  Qed.

  Definition Pe (e : verr) (l : list stree) (f : forest) : bool := forallb (req vs (Pn e) (Pc e) f true) l.

  Lemma ctx_identity e l f : wf_l l -> case_ctx l f = true ->
    (forallb (fun t => cokb f e t && nokb f e t) l = true /\ (forall v, In v (flat_map (npv vs f) l) -> vfb e v = true)) <->
    Pe e l f = true.
  Proof.
    intros Hw Hc. unfold Pe, case_ctx in *. rewrite forallb_forall in Hc.
    rewrite <- (forallb_forall (vfb e)), forallb_flat_map, <- andb_true_iff, forallb_andb.
    rewrite (forallb_ext_in _ (req vs (Pn e) (Pc e) f true) l); [reflexivity|].
    intros t Ht. destruct (Hw t Ht) as [Hs Hd]. apply (elem_identity e t f Hs Hd (Hc t Ht)).
  Qed.

  Lemma visit_spec (rec : dnode -> vres) (OKx : dnode -> verr -> Prop) : forall c virt,
    (forall x, In x c -> vspec (rec x) (OKx x)) ->
    vspec (visit vs rec c virt) (fun e => (forall v, In v virt -> vfb e v = true) /\ (forall x, In x c -> OKx x e)).
  Proof.
    induction c as [|x r IH]; intros virt H; cbn [visit].
    - eapply vspec_ext; [apply vspec_vall; intros v _; apply vf_spec|]. intro e. cbn beta. split.
      + intro Hv. split; [exact Hv|intros x []].
      + intros [Hv _]. exact Hv.
    - eapply vspec_ext.
      + apply vspec_vand'; [apply vspec_vall; intros v _; apply vf_spec|].
        apply vspec_vand'; [apply H; left; reflexivity|apply IH; intros y Hy; apply H; right; exact Hy].
      + intro e. cbn beta. split.
        * intros [H1 [H2 [H3 H4]]]. split.
          -- intros v Hv. destruct (st_sid v <? d_sid x) eqn:E; [apply H1|apply H3]; apply filter_In; (split; [exact Hv|]);
               [exact E|rewrite E; reflexivity].
          -- intros y [<-|Hy]; [exact H2|apply H4, Hy].
        * intros [H1 H2]. split; [|split; [|split]].
          -- intros v Hv. apply filter_In in Hv. apply H1, Hv.
          -- apply H2. left. reflexivity.
          -- intros v Hv. apply filter_In in Hv. apply H1, Hv.
          -- intros y Hy. apply H2. right. exact Hy.
  Qed.

  Lemma final_node_spec n : forall l, wf_l l -> all_ctx_node case_ctx l n = true ->
    vspec (final_node vs l n) (fun e => all_ctx_node (Pe e) l n = true).
  Proof.
    induction n as [s v d m ch IH] using dnode_ind'. intros l Hw Hc. rewrite Forall_forall in IH.
    cbn [final_node all_ctx_node] in *. apply andb_true_iff in Hc. destruct Hc as [Hc1 Hc2]. rewrite forallb_forall in Hc2.
    pose proof (st_children_wf l s Hw) as Hw'.
    eapply vspec_ext.
    - apply vspec_vand'; [apply schema_r_spec|].
      apply (visit_spec _ (fun x e => all_ctx_node (Pe e) (st_children l s) x = true)).
      intros x Hx. apply (IH x Hx _ Hw' (Hc2 x Hx)).
    - intro e. cbn beta. rewrite andb_true_iff, (forallb_forall (all_ctx_node (Pe e) (st_children l s))), <- (ctx_identity e _ _ Hw' Hc1). tauto.
  Qed.

  Lemma final_top_spec f : wf_l (vs_tree vs) -> all_ctx case_ctx (vs_tree vs) f = true ->
    vspec (final_top vs f) (fun e => all_ctx (Pe e) (vs_tree vs) f = true).
  Proof.
    intros Hw Hc. unfold final_top, all_ctx in *. apply andb_true_iff in Hc. destruct Hc as [Hc1 Hc2]. rewrite forallb_forall in Hc2.
    eapply vspec_ext.
    - apply vspec_vand'; [apply schema_r_spec|].
      apply (visit_spec _ (fun x e => all_ctx_node (Pe e) (vs_tree vs) x = true)).
      intros x Hx. apply (final_node_spec x _ Hw (Hc2 x Hx)).
    - intro e. cbn beta. rewrite andb_true_iff, (forallb_forall (all_ctx_node (Pe e) (vs_tree vs))), <- (ctx_identity e _ _ Hw Hc1). tauto.
  Qed.

  (* ----------------------------------------------------------------------------------------- *)
  (* from the enforcement form to the rules of RfcValid.v                                         *)
  (* ----------------------------------------------------------------------------------------- *)
  Lemma all_ctx_ext P P' : (forall l f, P l f = P' l f) -> forall f l, all_ctx P l f = all_ctx P' l f.
  Proof.
    intro H. induction f as [f IH] using forest_ind'. intro l. unfold all_ctx. rewrite H. f_equal.
    apply forallb_ext_in. intros n Hn. rewrite !all_ctx_node_unfold. apply (IH n Hn).
  Qed.

  Lemma all_ctx_true P : (forall l f, P l f = true) -> forall f l, all_ctx P l f = true.
  Proof.
    intro H. induction f as [f IH] using forest_ind'. intro l. apply all_ctx_iff. split; [apply H|].
    intros n Hn. apply (IH n Hn).
  Qed.

  Lemma req_false_gen P Q f t : req vs P Q f false t = true.
  Proof.
    induction t as [s ch IH|cid m cs IH|c d ch IH] using stree_ind'; cbn [req negb orb andb]; rewrite Forall_forall in IH.
    - destruct (kind vs s) as [[|]| | | |]; try reflexivity. rewrite orb_true_r. reflexivity.
    - apply forallb_forall. exact IH.
    - apply forallb_forall. exact IH.
  Qed.

  (* a constraint that holds for every schema node without instances needs no enforcement condition: it can be read
     on every schema node of the level *)
  Fixpoint flat_t (P : forest -> sid -> list stree -> bool) (f : forest) (t : stree) : bool :=
    match t with
    | TNode s ch => P f s ch
    | TChoice _ _ cs => forallb (flat_t P f) cs
    | TCase _ _ ch => forallb (flat_t P f) ch
    end.

  Lemma flat_t_nodata P f t : (forall f s ch, has_sid f s = false -> P f s ch = true) ->
    sub_has_data f t = false -> flat_t P f t = true.
  Proof.
    intro Habs. induction t as [s ch IH|cid m cs IH|c d ch IH] using stree_ind'; intro H; cbn [flat_t]; rewrite Forall_forall in IH.
    - apply Habs. rewrite sub_has_data_node in H. exact H.
    - rewrite sub_has_data_choice in H. apply forallb_forall. intros x Hx. apply (IH x Hx), (existsb_false_inv _ _ H x Hx).
    - rewrite sub_has_data_case in H. apply forallb_forall. intros x Hx. apply (IH x Hx), (existsb_false_inv _ _ H x Hx).
  Qed.

  Lemma req_flat_t (P : forest -> sid -> list stree -> bool) :
    (forall f s ch, has_sid f s = false -> P f s ch = true) ->
    forall t f, req vs P (fun _ _ _ => true) f true t = flat_t P f t.
  Proof.
    intros Habs t. induction t as [s ch IH|cid m cs IH|c d ch IH] using stree_ind'; intro f; rewrite Forall_forall in IH;
      cbn [req flat_t negb orb andb].
    - replace (match kind vs s with
               | KCont false => has_sid f s || false || forallb (req vs P (fun _ _ _ => true) [] true) ch
               | _ => true end) with true; [apply andb_true_r|].
      destruct (kind vs s) as [[|]| | | |]; try reflexivity.
      symmetry. apply orb_true_iff. right. apply forallb_forall. intros x Hx. rewrite (IH x Hx).
      apply flat_t_nodata; [exact Habs|apply sub_has_data_nil].
    - apply forallb_ext_in. intros x Hx. apply (IH x Hx).
    - destruct (sub_has_data f (TCase c d ch)) eqn:E.
      + apply forallb_ext_in. intros x Hx. apply (IH x Hx).
      + rewrite (forallb_true _ ch (fun x _ => req_false_gen P _ f x)). symmetry.
        rewrite sub_has_data_case in E. apply forallb_forall. intros x Hx.
        apply flat_t_nodata; [exact Habs|apply (existsb_false_inv _ _ E x Hx)].
  Qed.

  Lemma flat_t_sids (P : forest -> sid -> bool) f t : flat_t (fun f s _ => P f s) f t = forallb (P f) (st_sids t).
  Proof.
    induction t as [s ch IH|cid m cs IH|c d ch IH] using stree_ind'; cbn [flat_t st_sids forallb]; rewrite Forall_forall in IH.
    - symmetry. apply andb_true_r.
    - rewrite forallb_flat_map. apply forallb_ext_in. exact IH.
    - rewrite forallb_flat_map. apply forallb_ext_in. exact IH.
  Qed.

  Lemma insts_nodata f s : has_sid f s = false -> insts f s = [].
  Proof.
    unfold has_sid, insts. intro H. induction f as [|x f IH]; cbn [filter]; [reflexivity|].
    cbn [existsb] in H. apply orb_false_iff in H. destruct H as [H1 H2]. rewrite H1. apply IH, H2.
  Qed.

  Lemma Pe_other e l f :
    match e with ENoMand | ENoMandChoice | ENoMin | ENoMax | ENoUniq => False | _ => True end -> Pe e l f = true.
  Proof.
    intro H. unfold Pe. apply forallb_forall. intros t _.
    assert (E : Pn e = (fun _ _ _ => true) /\ Pc e = (fun _ _ _ => true)) by (destruct e; try contradiction; split; reflexivity).
    destruct E as [E1 E2]. rewrite E1, E2. rewrite (req_flat_t (fun _ _ _ => true) (fun _ _ _ _ => eq_refl)).
    induction t as [s ch IH|cid m cs IH|c d ch IH] using stree_ind'; cbn [flat_t]; [reflexivity| |];
      rewrite Forall_forall in IH; apply forallb_forall; exact IH.
  Qed.

  Lemma Pe_max l f : Pe ENoMax l f = max_ctx vs l f.
  Proof.
    unfold Pe, max_ctx. cbn [Pn Pc]. rewrite forallb_flat_map. apply forallb_ext_in. intros t _.
    rewrite req_flat_t; [apply (flat_t_sids (max_node vs))|].
    intros f' s _ H. unfold max_node, count. rewrite (insts_nodata f' s H). cbn [length].
    destruct (kind vs s) as [[|]| | | |]; try reflexivity; destruct (si_max (info vs s)) as [[|?]|]; reflexivity.
  Qed.

  Lemma Pe_uniq l f : Pe ENoUniq l f = forallb (flat_t uq_impl f) l.
  Proof.
    unfold Pe. cbn [Pn Pc]. apply forallb_ext_in. intros t _.
    apply req_flat_t. intros f' s ch H. unfold uq_impl. rewrite (insts_nodata f' s H). destruct (kind vs s); reflexivity.
  Qed.

  (* ----------------------------------------------------------------------------------------- *)
  (* unique: lyd_validate_unique (with lyd_val_uniq_dflt_in_use) = RFC 7950 7.8.3 / 7.6.1          *)
  (* ----------------------------------------------------------------------------------------- *)
  Definition dflt_of (p : list sid) : option bytes :=
    match si_dflts (info vs (last p 0)) with d :: _ => Some d | [] => None end.
  Definition uqv (l : list stree) (fc : forest) (p : list sid) : option bytes :=
    match uq_find fc p with
    | Some x => Some (d_val x)
    | None => match dflt_of p with
              | Some d => if uq_dflt_in_use vs l fc p then Some d else None
              | None => None
              end
    end.
  Definition olist (o : option bytes) : list bytes := match o with Some v => [v] | None => [] end.

  Lemma uq_val_uqv ls n p : uq_val vs ls n p = uqv ls (d_ch n) p.
  Proof. unfold uq_val, uqv, dflt_of. destruct (uq_find (d_ch n) p); [reflexivity|]. destruct (si_dflts (info vs (last p 0))); reflexivity. Qed.

  Lemma first_some_ext_in {A B} (g g' : A -> option B) l : (forall x, In x l -> g x = g' x) -> first_some g l = first_some g' l.
  Proof.
    intro H. induction l as [|x l IH]; cbn [first_some]; [reflexivity|]. rewrite (H x (or_introl eq_refl)).
    destruct (g' x); [reflexivity|]. apply IH. intros y Hy. apply H. right. exact Hy.
  Qed.

  Lemma cases_in_eff f s t : forall ok chd, cases_in f ok chd s t = eff_in f ok chd s t.
  Proof.
    induction t as [s' ch IH|cid m cs IH|c d ch IH] using stree_ind'; intros ok chd; cbn [cases_in eff_in]; rewrite Forall_forall in IH.
    - reflexivity.
    - apply first_some_ext_in. intros x Hx. apply IH, Hx.
    - apply first_some_ext_in. intros x Hx. apply IH, Hx.
  Qed.

  Lemma cases_exist_eff l f s : cases_exist l f s = in_effect l f s.
  Proof. unfold cases_exist, in_effect. rewrite (first_some_ext_in _ (eff_in f true false s) l (fun x _ => cases_in_eff f s x true false)). reflexivity. Qed.

  Lemma eff_in_none f s t : forall eff chd, existsb (N.eqb s) (st_sids t) = false -> eff_in f eff chd s t = None.
  Proof.
    induction t as [s' ch IH|cid m cs IH|c d ch IH] using stree_ind'; intros eff chd H; cbn [eff_in st_sids] in *;
      rewrite Forall_forall in IH.
    - cbn [existsb] in H. rewrite orb_false_r in H. rewrite N.eqb_sym, H. reflexivity.
    - rewrite existsb_flat_map in H. pose proof (existsb_false_inv _ _ H) as Hc.
      generalize (existsb (sub_has_data f) cs). intro b.
      clear H. induction cs as [|x r IHr]; cbn [first_some]; [reflexivity|].
      rewrite (IH x (or_introl eq_refl) eff b (Hc x (or_introl eq_refl))).
      apply IHr; intros y Hy; [apply IH|apply Hc]; right; exact Hy.
    - rewrite existsb_flat_map in H. pose proof (existsb_false_inv _ _ H) as Hc.
      generalize (eff && (sub_has_data f (TCase c d ch) || d && negb chd)). intro b.
      clear H. induction ch as [|x r IHr]; cbn [first_some]; [reflexivity|].
      rewrite (IH x (or_introl eq_refl) b false (Hc x (or_introl eq_refl))).
      apply IHr; intros y Hy; [apply IH|apply Hc]; right; exact Hy.
  Qed.

  Lemma first_some_found {A} (g : A -> option bool) (mem : A -> bool) l :
    (forall x, In x l -> mem x = false -> g x = None) -> (forall x, In x l -> mem x = true -> g x = Some true) ->
    existsb mem l = true -> first_some g l = Some true.
  Proof.
    intros H0 H1. induction l as [|x l IH]; cbn [existsb first_some]; [discriminate|]. intro H.
    destruct (mem x) eqn:E.
    - rewrite (H1 x (or_introl eq_refl) E). reflexivity.
    - rewrite (H0 x (or_introl eq_refl) E). cbn [orb] in H.
      apply IH; [intros y Hy; apply H0; right; exact Hy|intros y Hy; apply H1; right; exact Hy|exact H].
  Qed.

  (* a schema node that has an instance is in effect: every case around it has data *)
  Lemma eff_in_found f s t : has_sid f s = true -> forall chd, existsb (N.eqb s) (st_sids t) = true -> eff_in f true chd s t = Some true.
  Proof.
    intro Hh. induction t as [s' ch IH|cid m cs IH|c d ch IH] using stree_ind'; intros chd H; cbn [eff_in]; rewrite Forall_forall in IH.
    - cbn [st_sids existsb] in H. rewrite orb_false_r in H. rewrite N.eqb_sym, H. reflexivity.
    - cbn [st_sids] in H. rewrite existsb_flat_map in H.
      apply (first_some_found _ (fun x => existsb (N.eqb s) (st_sids x))); [| |exact H].
      + intros x _ E. apply eff_in_none, E.
      + intros x Hx E. apply (IH x Hx), E.
    - assert (Hd : sub_has_data f (TCase c d ch) = true).
      { unfold sub_has_data. apply existsb_exists in H. destruct H as [s0 [Hs0 E]]. apply N.eqb_eq in E. subst s0.
        apply existsb_exists. exists s. split; assumption. }
      rewrite Hd. cbn [andb orb]. cbn [st_sids] in H. rewrite existsb_flat_map in H.
      apply (first_some_found _ (fun x => existsb (N.eqb s) (st_sids x))); [| |exact H].
      + intros x _ E. apply eff_in_none, E.
      + intros x Hx E. apply (IH x Hx), E.
  Qed.

  Lemma in_effect_has l f s : has_sid f s = true -> existsb (N.eqb s) (flat_map st_sids l) = true -> in_effect l f s = true.
  Proof.
    intros Hh H. unfold in_effect. rewrite existsb_flat_map in H.
    rewrite (first_some_found (eff_in f true false s) (fun x => existsb (N.eqb s) (st_sids x)) l); [reflexivity| | |exact H].
    - intros x _ E. apply eff_in_none, E.
    - intros x _ E. apply (eff_in_found f s x Hh), E.
  Qed.

  Lemma last_cons2 (s s2 : sid) p2 : last (s :: s2 :: p2) 0 = last (s2 :: p2) 0.
  Proof. reflexivity. Qed.

  Lemma common_olist a b :
    common (olist a) (olist b) = match a, b with Some x, Some y => beq_bytes x y | _, _ => false end.
  Proof.
    unfold common. destruct a as [x|], b as [y|]; cbn [olist existsb]; try reflexivity. rewrite !orb_false_r. reflexivity.
  Qed.

  Lemma kind_multi s : multi (vs_info vs) s = match kind vs s with KList | KLeafList => true | _ => false end.
  Proof. reflexivity. Qed.

  Lemma insts_single l fc s : all_ctx (single_ctx vs) l fc = true -> multi (vs_info vs) s = false ->
    (insts fc s = [] /\ find_sid fc s = None) \/ (exists c, insts fc s = [c] /\ find_sid fc s = Some c /\ In c fc /\ d_sid c = s).
  Proof.
    intros Hs Hm. apply all_ctx_iff in Hs. destruct Hs as [Hs _].
    pose proof (single_insts fc s Hs Hm) as Hl. unfold find_sid. rewrite find_filter_hd. fold (insts fc s).
    destruct (insts fc s) as [|c [|? ?]] eqn:E; [left; split; reflexivity| |cbn in Hl; lia].
    right. exists c. repeat split. assert (Hc : In c (insts fc s)) by (rewrite E; left; reflexivity).
    - apply filter_In in Hc. apply Hc.
    - assert (Hc : In c (insts fc s)) by (rewrite E; left; reflexivity). apply filter_In in Hc. apply N.eqb_eq, Hc.
  Qed.

  Lemma all_ctx_single_l : forall f l l2, all_ctx (single_ctx vs) l f = all_ctx (single_ctx vs) l2 f.
  Proof.
    induction f as [f IH] using forest_ind'. intros l l2. unfold all_ctx. f_equal.
    apply forallb_ext_in. intros n Hn. rewrite !all_ctx_node_unfold. apply (IH n Hn).
  Qed.

  Lemma uvals_one l f s :
    uvals vs l f [s] = match insts f s with
                       | [] => if in_effect l f s then leaf_dflt vs s else []
                       | is => map d_val is
                       end.
  Proof. reflexivity. Qed.

  Lemma uvals_cons2 l f s s2 p2 :
    uvals vs l f (s :: s2 :: p2) =
    match insts f s with
    | [] => match kind vs s with
            | KCont false => if in_effect l f s then uvals vs (st_children l s) [] (s2 :: p2) else []
            | _ => []
            end
    | is => flat_map (fun d => uvals vs (st_children l s) (d_ch d) (s2 :: p2)) is
    end.
  Proof. reflexivity. Qed.

  Lemma uq_find_cons2 fc s s2 p2 :
    uq_find fc (s :: s2 :: p2) = match find_sid fc s with Some c => uq_find (d_ch c) (s2 :: p2) | None => None end.
  Proof. reflexivity. Qed.

  Lemma uq_find_nil p : uq_find [] p = None.
  Proof. destruct p as [|s [|s2 p2]]; reflexivity. Qed.

  Lemma in_use_one l f s : uq_dflt_in_use vs l f [s] = cases_exist l f s.
  Proof. cbn [uq_dflt_in_use]. destruct (find_sid f s); apply andb_true_r. Qed.

  Lemma in_use_cons2 l f s s2 p2 :
    uq_dflt_in_use vs l f (s :: s2 :: p2) =
    cases_exist l f s &&
    match find_sid f s with
    | Some c => uq_dflt_in_use vs (st_children l s) (d_ch c) (s2 :: p2)
    | None => match kind vs s with KCont true => false | _ => uq_dflt_in_use vs (st_children l s) [] (s2 :: p2) end
    end.
  Proof. reflexivity. Qed.

  Lemma upath_ok_cons2 s s2 p2 :
    upath_ok vs (s :: s2 :: p2) = match kind vs s with KCont _ => upath_ok vs (s2 :: p2) | _ => false end.
  Proof. reflexivity. Qed.

  Lemma single_nil l : all_ctx (single_ctx vs) l [] = true.
  Proof. reflexivity. Qed.

  Lemma uvals_impl : forall p l fc,
    all_ctx (single_ctx vs) l fc = true -> upath_ok vs p = true -> upath_in l p = true ->
    uvals vs l fc p = olist (uqv l fc p).
  Proof.
    induction p as [|s p IH]; intros l fc Hs Hu Hp; [cbn in Hu; discriminate|].
    cbn [upath_in] in Hp. apply andb_true_iff in Hp. destruct Hp as [Hin Hp].
    destruct p as [|s2 p2].
    - cbn [upath_ok] in Hu. assert (Hm : multi (vs_info vs) s = false) by (rewrite kind_multi; destruct (kind vs s); try discriminate; reflexivity).
      rewrite uvals_one. unfold uqv. cbn [uq_find]. rewrite in_use_one, (cases_exist_eff l fc s).
      destruct (insts_single l fc s Hs Hm) as [[E1 E2]|[c [E1 [E2 _]]]]; rewrite E1, E2; [|reflexivity].
      unfold dflt_of, leaf_dflt. cbn [last]. destruct (si_dflts (info vs s)); destruct (in_effect l fc s); reflexivity.
    - rewrite upath_ok_cons2 in Hu.
      assert (Hm : multi (vs_info vs) s = false) by (rewrite kind_multi; destruct (kind vs s); try discriminate; reflexivity).
      assert (Hu2 : upath_ok vs (s2 :: p2) = true) by (destruct (kind vs s); try discriminate; exact Hu).
      assert (Hd : dflt_of (s :: s2 :: p2) = dflt_of (s2 :: p2)) by (unfold dflt_of; rewrite last_cons2; reflexivity).
      rewrite uvals_cons2. unfold uqv. rewrite uq_find_cons2, in_use_cons2, (cases_exist_eff l fc s), Hd.
      destruct (insts_single l fc s Hs Hm) as [[E1 E2]|[c [E1 [E2 [Hc Hcs]]]]]; rewrite E1, E2.
      + pose proof (IH (st_children l s) [] (single_nil _) Hu2 Hp) as IH0. unfold uqv in IH0. rewrite uq_find_nil in IH0.
        destruct (kind vs s) as [[|]| | | |]; try discriminate.
        * rewrite andb_false_r. destruct (dflt_of (s2 :: p2)); reflexivity.
        * destruct (in_effect l fc s); cbn [andb]; [exact IH0|]. destruct (dflt_of (s2 :: p2)); reflexivity.
      + cbn [flat_map]. rewrite app_nil_r.
        assert (Hh : has_sid fc s = true).
        { unfold has_sid. apply existsb_exists. exists c. split; [exact Hc|]. apply N.eqb_eq. exact Hcs. }
        rewrite (in_effect_has l fc s Hh Hin). cbn [andb].
        apply (IH (st_children l s) (d_ch c)); [|exact Hu2|exact Hp].
        apply all_ctx_iff in Hs. destruct Hs as [_ Hs]. rewrite <- Hcs. apply Hs, Hc.
  Qed.

  Definition wfu (l : list stree) : Prop := forall t, In t l -> uniq_placed_t vs t = true.

  Lemma uniques_of_ok s u p : uniq_ok vs = true -> In u (uniques_of vs s) -> In p u -> upath_ok vs p = true.
  Proof.
    unfold uniq_ok, uniques_of. intros H Hu Hp. destruct (find (fun e => fst e =? s) (vs_uniq vs)) as [e|] eqn:E; [|destruct Hu].
    apply find_some in E. destruct E as [E _]. rewrite forallb_forall in H. specialize (H e E).
    rewrite forallb_forall in H. specialize (H u Hu). rewrite forallb_forall in H. apply H, Hp.
  Qed.

  Lemma st_find_placed s t ch : uniq_placed_t vs t = true -> st_find s t = Some ch -> wfu ch.
  Proof.
    revert ch. induction t as [s' c IH|cid m cs IH|c d cc IH] using stree_ind'; intros ch Hd Hf;
      cbn [st_find uniq_placed_t] in *; rewrite Forall_forall in IH.
    - destruct (s' =? s) eqn:E; [|discriminate]. inversion Hf; subst.
      apply andb_true_iff in Hd. destruct Hd as [_ Hd2]. rewrite forallb_forall in Hd2. exact Hd2.
    - rewrite forallb_forall in Hd. destruct (first_some_in _ _ _ Hf) as [x [Hx Ex]]. apply (IH x Hx ch (Hd x Hx) Ex).
    - rewrite forallb_forall in Hd. destruct (first_some_in _ _ _ Hf) as [x [Hx Ex]]. apply (IH x Hx ch (Hd x Hx) Ex).
  Qed.

  Lemma st_children_wfu l s : wfu l -> wfu (st_children l s).
  Proof.
    intro H. unfold st_children. destruct (first_some (st_find s) l) as [ch|] eqn:E; [|intros t []].
    destruct (first_some_in _ _ _ E) as [x [Hx Ex]]. apply (st_find_placed s x ch (H x Hx) Ex).
  Qed.

  Lemma existsb_ext_in {A} (p q : A -> bool) l : (forall x, In x l -> p x = q x) -> existsb p l = existsb q l.
  Proof.
    intro H. induction l as [|x l IH]; cbn [existsb]; [reflexivity|]. rewrite (H x (or_introl eq_refl)), IH; [reflexivity|].
    intros y Hy. apply H. right. exact Hy.
  Qed.

  Lemma pairwise_ext_in {A} (r r' : A -> A -> bool) l :
    (forall a b, In a l -> In b l -> r a b = r' a b) -> pairwise r l = pairwise r' l.
  Proof.
    induction l as [|x l IH]; intro H; cbn [pairwise]; [reflexivity|]. f_equal.
    - apply forallb_ext_in. intros b Hb. apply H; [left; reflexivity|right; exact Hb].
    - apply IH. intros a b Ha Hb. apply H; right; assumption.
  Qed.

  Lemma uniq_node_eq f s ch : uniq_ok vs = true ->
    (forall a, In a f -> all_ctx (single_ctx vs) ch (d_ch a) = true) ->
    forallb (forallb (upath_in ch)) (uniques_of vs s) = true ->
    uq_impl f s ch = unique_node vs ch f s.
  Proof.
    intros Hu Hs Hpl. unfold uq_impl, unique_node. destruct (kind vs s); try reflexivity.
    apply pairwise_ext_in. intros a b Ha Hb. f_equal.
    apply filter_In in Ha. destruct Ha as [Ha _]. apply filter_In in Hb. destruct Hb as [Hb _].
    rewrite forallb_forall in Hpl.
    apply existsb_ext_in. intros u Hu'. unfold uq_equal, uq_conflict. destruct u as [|p0 u0] eqn:Eu; [reflexivity|]. rewrite <- Eu in *.
    specialize (Hpl u Hu'). rewrite forallb_forall in Hpl.
    apply forallb_ext_in. intros p Hp. rewrite !uq_val_uqv.
    rewrite (uvals_impl p ch (d_ch a) (Hs a Ha) (uniques_of_ok s u p Hu Hu' Hp) (Hpl p Hp)).
    rewrite (uvals_impl p ch (d_ch b) (Hs b Hb) (uniques_of_ok s u p Hu Hu' Hp) (Hpl p Hp)).
    symmetry. apply common_olist.
  Qed.

  Lemma uniq_t_eq f t : uniq_ok vs = true -> uniq_placed_t vs t = true ->
    (forall a l', In a f -> all_ctx (single_ctx vs) l' (d_ch a) = true) ->
    flat_t uq_impl f t = unique_t vs f t.
  Proof.
    intros Hu Hp Hs. induction t as [s ch IH|cid m cs IH|c d ch IH] using stree_ind'; cbn [flat_t unique_t uniq_placed_t] in *;
      rewrite Forall_forall in IH.
    - apply andb_true_iff in Hp. destruct Hp as [Hp _]. apply uniq_node_eq; [exact Hu|intros a Ha; apply Hs, Ha|exact Hp].
    - rewrite forallb_forall in Hp. apply forallb_ext_in. intros x Hx. apply (IH x Hx), Hp, Hx.
    - rewrite forallb_forall in Hp. apply forallb_ext_in. intros x Hx. apply (IH x Hx), Hp, Hx.
  Qed.

  Lemma uniq_all : uniq_ok vs = true -> forall f l, wfu l -> all_ctx (single_ctx vs) l f = true ->
    all_ctx (Pe ENoUniq) l f = all_ctx (unique_ctx vs) l f.
  Proof.
    intro Hu. induction f as [f IH] using forest_ind'. intros l Hw Hs. unfold all_ctx. f_equal.
    - rewrite Pe_uniq. unfold unique_ctx. apply forallb_ext_in. intros t Ht. apply uniq_t_eq; [exact Hu|apply Hw, Ht|].
      intros a l' Ha. apply all_ctx_iff in Hs. destruct Hs as [_ Hs].
      rewrite (all_ctx_single_l (d_ch a) l' (st_children l (d_sid a))). apply Hs, Ha.
    - apply forallb_ext_in. intros n Hn. rewrite !all_ctx_node_unfold. apply (IH n Hn).
      + apply st_children_wfu, Hw.
      + apply all_ctx_iff in Hs. apply Hs, Hn.
  Qed.

  (* ----------------------------------------------------------------------------------------- *)
  (* parsing with validation of a fresh tree                                                      *)
  (* ----------------------------------------------------------------------------------------- *)
  Definition ClassOK (f : forest) (e : verr) : Prop :=
    match e with
    | EFuel => True
    | EType => rfc_types ty vs f = true
    | EKey => rfc_keys vs f = true
    | EDup => rfc_single vs f = true /\ rfc_keyuniq vs f = true /\ rfc_llval vs f = true
    | EDupCase => rfc_case vs f = true
    | ENoMand => rfc_mand vs f = true
    | ENoMandChoice => rfc_mand_choice vs f = true
    | ENoMin => rfc_min vs f = true
    | ENoMax => rfc_max vs f = true
    | ENoUniq => rfc_unique vs f = true
    | EState => True
    end.

  Lemma lookup_in sch s i : lookup sch s = Some i -> exists k, In (k, i) sch.
  Proof.
    induction sch as [|[k j] r IH]; cbn [lookup]; [discriminate|]. destruct (k =? s).
    - intro H. inversion H; subst. exists k. left. reflexivity.
    - intro H. destruct (IH H) as [k' Hk]. exists k'. right. exact Hk.
  Qed.

  Lemma keys_ok_kinds : keys_ok vs = true -> key_kinds_ok.
  Proof.
    unfold keys_ok, key_kinds_ok. rewrite forallb_forall. intros H s k Hk. unfold info, sget in Hk.
    destruct (lookup (vs_info vs) s) as [i|] eqn:E; [|destruct Hk].
    destruct (lookup_in _ _ _ E) as [k' Hin]. specialize (H _ Hin). cbn [snd] in H. rewrite forallb_forall in H.
    specialize (H k Hk). rewrite kind_multi. destruct (kind vs k); try discriminate; reflexivity.
  Qed.

  Lemma vspec_err e0 (OK : verr -> Prop) : ~ OK e0 -> vspec (VErr e0) OK.
  Proof.
    intro H. split.
    - split; [discriminate|]. intro Ha. exfalso. apply H, Ha.
    - intros e He. inversion He; subst. exact H.
  Qed.

  Hypothesis Hwf : vschema_ok vs = true.

  Lemma wf_parts : wf_l (vs_tree vs) /\ key_kinds_ok /\ uniq_ok vs = true /\ wfu (vs_tree vs).
  Proof.
    pose proof Hwf as W. unfold vschema_ok in W.
    apply andb_true_iff in W. destruct W as [W W5]. apply andb_true_iff in W. destruct W as [W W4].
    apply andb_true_iff in W. destruct W as [W W3]. apply andb_true_iff in W. destruct W as [W1 W2].
    rewrite forallb_forall in W1, W2, W5. repeat split.
    - apply W1, H.
    - apply W2, H.
    - apply keys_ok_kinds. exact W3.
    - exact W4.
    - exact W5.
  Qed.

  Lemma final_classes f :
    all_ctx case_ctx (vs_tree vs) f = true -> all_ctx (single_ctx vs) (vs_tree vs) f = true ->
    (forall e, match e with ENoMand | ENoMandChoice | ENoMin | ENoMax | ENoUniq => False | _ => True end -> ClassOK f e) ->
    vspec (final_top vs f) (ClassOK f).
  Proof.
    intros Hc Hs Hearly. destruct wf_parts as [Hw [_ [Hu Hwu]]].
    eapply vspec_ext; [apply (final_top_spec f Hw Hc)|].
    intro e. cbn beta.
    destruct e; try (split; [intros _; apply Hearly; exact I|intros _; apply all_ctx_true; intros l' f'; apply Pe_other; exact I]);
      cbn [ClassOK].
    - reflexivity.
    - reflexivity.
    - reflexivity.
    - unfold rfc_max. rewrite (all_ctx_ext (Pe ENoMax) (max_ctx vs) Pe_max). reflexivity.
    - unfold rfc_unique. rewrite (uniq_all Hu f _ Hwu Hs). reflexivity.
  Qed.

  Theorem parse_validate_spec f : nodflt f = true -> vspec (impl_parse_validate vs ty f) (ClassOK f).
  Proof.
    intro Hd. destruct wf_parts as [Hw [Hk [Hu Hwu]]]. unfold impl_parse_validate.
    eapply vspec_ext.
    - apply vspec_vand; [apply parse_spec|]. intro Hp.
      assert (Hty : rfc_types ty vs f = true) by (apply (Hp EType); reflexivity).
      assert (Hkeys : rfc_keys vs f = true) by (apply (Hp EKey); reflexivity).
      instantiate (1 := ClassOK f). unfold impl_validate.
      destruct (vnew_fresh (S (vfsize (map mark_new f))) (vs_tree vs) f Hd (Nat.lt_succ_diag_r _)) as [[E Hn]|[e0 [E Hn]]]; rewrite E.
      + rewrite map_erase_mark_clr.
        pose proof (proj1 (Hn EDupCase) eq_refl) as Hcase. pose proof (proj2 (Hn EDup) eq_refl) as Hdup.
        apply (dup_rules Hk f _ Hkeys) in Hdup. destruct Hdup as [S1 [S2 S3]].
        apply (final_classes f Hcase S1). intros e He. destruct e; try contradiction; cbn [ClassOK]; auto.
      + apply vspec_err. intro Hc. apply Hn. split; intros ->; cbn [ClassOK] in Hc.
        * exact Hc.
        * apply (dup_rules Hk f _ Hkeys). exact Hc.
    - intro e. cbn beta. split; [intros [_ H]; exact H|]. intro H. split; [|exact H].
      split; intros ->; exact H.
  Qed.
  (* lyd_validate_module on a tree with a validated (un-flagged) part and arbitrary flagged nodes *)
  Theorem history_spec g : hist_ok vs g = true ->
    rfc_types ty vs (map erase g) = true -> rfc_keys vs (map erase g) = true ->
    vspec (impl_validate vs g) (ClassOK (map erase g)).
  Proof.
    intros Hh Hty Hkeys. destruct wf_parts as [Hw [Hk [Hu Hwu]]]. unfold hist_ok in Hh. apply andb_true_iff in Hh.
    destruct Hh as [Hl Hn]. unfold impl_validate.
    destruct (vnew_hist (S (vfsize g)) (vs_tree vs) g Hl Hn (Nat.lt_succ_diag_r _)) as [[E Ha]|[e0 [E Ha]]]; rewrite E.
    - rewrite map_erase_vclr.
      pose proof (proj1 (Ha EDupCase) eq_refl) as Hcase. pose proof (proj2 (Ha EDup) eq_refl) as Hdup.
      apply (dup_rules Hk _ _ Hkeys) in Hdup. destruct Hdup as [S1 [S2 S3]].
      apply (final_classes _ Hcase S1). intros e He. destruct e; try contradiction; cbn [ClassOK]; auto.
    - apply vspec_err. intro Hc. apply Ha. split; intros ->; cbn [ClassOK] in Hc.
      + exact Hc.
      + apply (dup_rules Hk _ _ Hkeys). exact Hc.
  Qed.
End Proofs.

(* ------------------------------------------------------------------------------------------- *)
(* main theorems                                                                                 *)
(* ------------------------------------------------------------------------------------------- *)
Lemma prune_id vs f : no_empty_np vs f = true -> prune vs f = f.
Proof.
  induction f as [f IH] using forest_ind'. unfold no_empty_np. rewrite forallb_forall. intro H.
  unfold prune. induction f as [|x r IHr]; cbn [flat_map]; [reflexivity|].
  rewrite IHr; [|intros n Hn; apply IH; right; exact Hn|intros n Hn; apply H; right; exact Hn].
  specialize (H x (or_introl eq_refl)). specialize (IH x (or_introl eq_refl)).
  destruct x as [s v d m ch]. cbn [no_empty_np_node d_ch] in *. apply andb_true_iff in H. destruct H as [H1 H2].
  cbn [prune_node]. fold (prune vs ch). rewrite (IH H2).
  destruct (kind vs s) as [[|]| | | |]; try reflexivity. destruct ch; [discriminate|reflexivity].
Qed.

Lemma class_ok_iff ty vs f e : class_ok ty vs f e = true <-> ClassOK ty vs f e.
Proof.
  destruct e; cbn [class_ok ClassOK]; try reflexivity.
  - split; auto.
  - rewrite !andb_true_iff. tauto.
  - split; auto.
Qed.

Lemma rules_hold_classes ty vs f : rules_hold ty vs f = true <-> forall e, class_ok ty vs f e = true.
Proof.
  unfold rules_hold. rewrite !andb_true_iff. split.
  - intros [[[[[[[[[[H1 H2] H3] H4] H5] H6] H7] H8] H9] H10] H11] e. destruct e; cbn [class_ok]; try assumption; try reflexivity.
    rewrite H3, H4, H5. reflexivity.
  - intro H. pose proof (H EDup) as Hd. cbn [class_ok] in Hd. rewrite !andb_true_iff in Hd.
    repeat split; try apply Hd;
      [apply (H EType)|apply (H EKey)|apply (H EDupCase)|apply (H ENoMand)|apply (H ENoMandChoice)|apply (H ENoMin)|apply (H ENoMax)|apply (H ENoUniq)].
Qed.

Theorem validate_iff_rfc ty vs f :
  vschema_ok vs = true -> fresh vs f = true ->
  (impl_parse_validate vs ty f = VOk <-> rfc_valid ty vs f = true).
Proof.
  intros Hw Hf. unfold fresh in Hf. apply andb_true_iff in Hf. destruct Hf as [Hd He].
  unfold rfc_valid. rewrite (prune_id vs f He), rules_hold_classes.
  destruct (parse_validate_spec ty vs Hw f Hd) as [H _]. rewrite H.
  split; intros Ha e; apply class_ok_iff, Ha.
Qed.

Theorem error_sound ty vs f e :
  vschema_ok vs = true -> fresh vs f = true ->
  impl_parse_validate vs ty f = VErr e -> class_ok ty vs f e = false.
Proof.
  intros Hw Hf He. unfold fresh in Hf. apply andb_true_iff in Hf. destruct Hf as [Hd _].
  destruct (parse_validate_spec ty vs Hw f Hd) as [_ H]. specialize (H e He).
  destruct (class_ok ty vs f e) eqn:E; [|reflexivity]. exfalso. apply H, class_ok_iff, E.
Qed.

(* HISTORIES: the un-flagged part of the tree was validated before (hist_ok), nodes flagged new are arbitrary: the
   validation of the tree is the validation of its content *)
Theorem history_iff_rfc ty vs g :
  vschema_ok vs = true -> hist_ok vs g = true -> no_empty_np vs (map erase g) = true ->
  rfc_types ty vs (map erase g) = true -> rfc_keys vs (map erase g) = true ->
  (impl_validate vs g = VOk <-> rfc_valid ty vs (map erase g) = true).
Proof.
  intros Hw Hh He Hty Hk. unfold rfc_valid. rewrite (prune_id vs _ He), rules_hold_classes.
  destruct (history_spec ty vs Hw g Hh Hty Hk) as [H _]. rewrite H.
  split; intros Ha e; apply class_ok_iff, Ha.
Qed.

Theorem history_error_sound ty vs g e :
  vschema_ok vs = true -> hist_ok vs g = true ->
  rfc_types ty vs (map erase g) = true -> rfc_keys vs (map erase g) = true ->
  impl_validate vs g = VErr e -> class_ok ty vs (map erase g) e = false.
Proof.
  intros Hw Hh Hty Hk He. destruct (history_spec ty vs Hw g Hh Hty Hk) as [_ H]. specialize (H e He).
  destruct (class_ok ty vs (map erase g) e) eqn:E; [|reflexivity]. exfalso. apply H, class_ok_iff, E.
Qed.

Theorem multi_verdict vs g : impl_validate_multi vs g = [] <-> impl_validate vs g = VOk.
Proof.
  rewrite <- (multi_first_error vs g). destruct (impl_validate_multi vs g); cbn [first_err]; split; intro H; try reflexivity; discriminate.
Qed.

Theorem error_class ty vs f e :
  vschema_ok vs = true -> fresh vs f = true ->
  class_ok ty vs f e = false -> (forall e', e' <> e -> class_ok ty vs f e' = true) ->
  impl_parse_validate vs ty f = VErr e.
Proof.
  intros Hw Hf Hbad Hothers.
  destruct (impl_parse_validate vs ty f) as [|e2] eqn:E.
  - exfalso. pose proof Hf as Hf'. unfold fresh in Hf'. apply andb_true_iff in Hf'. destruct Hf' as [Hd _].
    destruct (parse_validate_spec ty vs Hw f Hd) as [H _]. rewrite E in H.
    pose proof (proj1 H eq_refl e) as Hc. apply class_ok_iff in Hc. congruence.
  - pose proof (error_sound ty vs f e2 Hw Hf E) as H2.
    destruct (verr_dec e2 e) as [->|Hne]; [reflexivity|]. rewrite (Hothers e2 Hne) in H2. discriminate.
Qed.

(* ------------------------------------------------------------------------------------------- *)
(* the verdict does not depend on the order of siblings                                          *)
(* ------------------------------------------------------------------------------------------- *)
(* g is f with the siblings permuted at any number of levels *)
Inductive permt : forest -> forest -> Prop :=
| permt_perm f g : Permutation f g -> permt f g
| permt_child s v d m ch ch' r : permt ch ch' -> permt (DN s v d m ch :: r) (DN s v d m ch' :: r)
| permt_skip x f g : permt f g -> permt (x :: f) (x :: g)
| permt_trans f g h : permt f g -> permt g h -> permt f h.

Lemma permt_refl f : permt f f.
Proof. apply permt_perm. reflexivity. Qed.

Definition sv (d : dnode) : sid * bytes := (d_sid d, d_val d).

Lemma permt_sv f g : permt f g -> Permutation (map sv f) (map sv g).
Proof.
  induction 1 as [f g H|s v d m ch ch' r _ _|x f g _ IH|f g h _ IH1 _ IH2].
  - apply Permutation_map, H.
  - reflexivity.
  - cbn [map]. constructor. exact IH.
  - etransitivity; eassumption.
Qed.

Lemma permt_sids f g : permt f g -> Permutation (map d_sid f) (map d_sid g).
Proof.
  intro H. apply permt_sv in H. apply (Permutation_map fst) in H. rewrite !map_map in H. exact H.
Qed.

Lemma existsb_perm {A} (p : A -> bool) l l' : Permutation l l' -> existsb p l = existsb p l'.
Proof.
  induction 1 as [|x l l' _ IH|x y l|l l' l'' _ IH1 _ IH2]; cbn [existsb]; [reflexivity|rewrite IH; reflexivity| |congruence].
  destruct (p x), (p y); reflexivity.
Qed.

Lemma forallb_perm {A} (p : A -> bool) l l' : Permutation l l' -> forallb p l = forallb p l'.
Proof.
  induction 1 as [|x l l' _ IH|x y l|l l' l'' _ IH1 _ IH2]; cbn [forallb]; [reflexivity|rewrite IH; reflexivity| |congruence].
  destruct (p x), (p y); reflexivity.
Qed.

Lemma filter_perm {A} (p : A -> bool) l l' : Permutation l l' -> Permutation (filter p l) (filter p l').
Proof.
  induction 1 as [|x l l' _ IH|x y l|l l' l'' _ IH1 _ IH2]; cbn [filter]; [reflexivity| | |etransitivity; eassumption].
  - destruct (p x); [constructor|]; exact IH.
  - destruct (p x), (p y); try reflexivity. apply perm_swap.
Qed.

Lemma has_sid_map f s : has_sid f s = existsb (fun x => x =? s) (map d_sid f).
Proof. unfold has_sid. induction f as [|x f IH]; cbn [existsb map]; [reflexivity|]. rewrite IH. reflexivity. Qed.

Lemma count_map f s : count f s = N.of_nat (length (filter (fun x => x =? s) (map d_sid f))).
Proof.
  unfold count, insts. f_equal. induction f as [|x f IH]; cbn [filter map length]; [reflexivity|].
  destruct (d_sid x =? s); cbn [length]; rewrite IH; reflexivity.
Qed.

Definition sids_eq (f g : forest) : Prop := Permutation (map d_sid f) (map d_sid g).

Lemma has_sid_eq f g s : sids_eq f g -> has_sid f s = has_sid g s.
Proof. intro H. rewrite !has_sid_map. apply existsb_perm, H. Qed.

Lemma count_eq f g s : sids_eq f g -> count f s = count g s.
Proof. intro H. rewrite !count_map. f_equal. apply Permutation_length, filter_perm, H. Qed.

Lemma sub_has_data_eq f g t : sids_eq f g -> sub_has_data f t = sub_has_data g t.
Proof. intro H. unfold sub_has_data. apply existsb_ext_in. intros s _. apply has_sid_eq, H. Qed.

Lemma permt_insts f g s : permt f g -> permt (insts f s) (insts g s).
Proof.
  unfold insts. induction 1 as [f g H|s' v d m ch ch' r H _|x f g _ IH|f g h _ IH1 _ IH2].
  - apply permt_perm, filter_perm, H.
  - cbn [filter d_sid]. destruct (s' =? s); [apply permt_child, H|apply permt_refl].
  - cbn [filter]. destruct (d_sid x =? s); [apply permt_skip, IH|exact IH].
  - eapply permt_trans; eassumption.
Qed.

Lemma permt_nil f g : permt f g -> (f = [] <-> g = []).
Proof.
  intro H. apply permt_sv in H. apply Permutation_length in H. rewrite !map_length in H.
  destruct f, g; cbn in H; split; intro E; try reflexivity; try discriminate.
Qed.

(* a predicate on nodes that does not see the order of the children *)
Definition resp1 (p : dnode -> bool) : Prop :=
  forall s v d m ch ch', permt ch ch' -> p (DN s v d m ch) = p (DN s v d m ch').

Lemma forallb_permt p f g : resp1 p -> permt f g -> forallb p f = forallb p g.
Proof.
  intros Hp. induction 1 as [f g H|s v d m ch ch' r H _|x f g _ IH|f g h _ IH1 _ IH2]; cbn [forallb].
  - apply forallb_perm, H.
  - rewrite (Hp s v d m ch ch' H). reflexivity.
  - rewrite IH. reflexivity.
  - congruence.
Qed.

Definition resp2 (r : dnode -> dnode -> bool) : Prop :=
  forall s v d m ch ch' b, permt ch ch' -> r (DN s v d m ch) b = r (DN s v d m ch') b.

Lemma pairwise_perm {A} (r : A -> A -> bool) l l' :
  (forall a b, r a b = r b a) -> Permutation l l' -> pairwise r l = pairwise r l'.
Proof.
  intro Hs. induction 1 as [|x l l' Hp IH|x y l|l l' l'' _ IH1 _ IH2]; cbn [pairwise]; [reflexivity| | |congruence].
  - rewrite IH, (forallb_perm _ _ _ Hp). reflexivity.
  - cbn [forallb]. rewrite (Hs y x).
    destruct (r x y), (forallb (r x) l), (forallb (r y) l), (pairwise r l); reflexivity.
Qed.

Lemma pairwise_permt r f g :
  (forall a b, r a b = r b a) -> resp2 r -> permt f g -> pairwise r f = pairwise r g.
Proof.
  intros Hs Hr. induction 1 as [f g H|s v d m ch ch' rr H _|x f g Hfg IH|f g h _ IH1 _ IH2]; cbn [pairwise].
  - apply pairwise_perm; assumption.
  - f_equal. apply forallb_ext_in. intros b _. apply Hr, H.
  - rewrite IH. f_equal. apply forallb_permt; [|exact Hfg].
    intros s v d m ch ch' Hc. rewrite (Hs x), (Hs x). apply Hr, Hc.
  - congruence.
Qed.

Lemma all_ctx_permt P :
  (forall l f g, permt f g -> P l f = P l g) -> forall f g, permt f g -> forall l, all_ctx P l f = all_ctx P l g.
Proof.
  intro HP.
  assert (G : forall f g, permt f g -> forall l, forallb (all_ctx_node P l) f = forallb (all_ctx_node P l) g).
  { induction 1 as [f g H|s v d m ch ch' r H IH|x f g _ IH|f g h _ IH1 _ IH2]; intro l; cbn [forallb].
    - apply forallb_perm, H.
    - f_equal. cbn [all_ctx_node]. rewrite (HP _ ch ch' H), IH. reflexivity.
    - rewrite IH. reflexivity.
    - rewrite IH1. apply IH2. }
  intros f g H l. unfold all_ctx. rewrite (HP l f g H), (G f g H l). reflexivity.
Qed.

Section Perm.
  Variable ty : sid -> bytes -> bool.
  Variable vs : vschema.

  Lemma types_permt f g : permt f g -> rfc_types ty vs f = rfc_types ty vs g.
  Proof.
    unfold rfc_types. induction 1 as [f g H|s v d m ch ch' r H IH|x f g _ IH|f g h _ IH1 _ IH2]; cbn [forallb].
    - apply forallb_perm, H.
    - cbn [types_node]. rewrite IH. reflexivity.
    - rewrite IH. reflexivity.
    - congruence.
  Qed.

  Lemma keys_permt f g : permt f g -> rfc_keys vs f = rfc_keys vs g.
  Proof.
    unfold rfc_keys. induction 1 as [f g H|s v d m ch ch' r H IH|x f g _ IH|f g h _ IH1 _ IH2]; cbn [forallb].
    - apply forallb_perm, H.
    - cbn [keys_node]. rewrite IH. f_equal. f_equal. apply forallb_ext_in. intros k _. apply has_sid_eq, permt_sids, H.
    - rewrite IH. reflexivity.
    - congruence.
  Qed.

  Lemma same_single_sym a b : same_single vs a b = same_single vs b a.
  Proof.
    unfold same_single. destruct (d_sid a =? d_sid b) eqn:E.
    - apply N.eqb_eq in E. rewrite E, N.eqb_refl. reflexivity.
    - rewrite N.eqb_sym, E. reflexivity.
  Qed.

  Lemma single_permt l f g : permt f g -> single_ctx vs l f = single_ctx vs l g.
  Proof.
    intro H. unfold single_ctx. apply pairwise_permt; [| |exact H].
    - intros a b. rewrite same_single_sym. reflexivity.
    - intros s v d m ch ch' b _. reflexivity.
  Qed.

  Lemma common_sym a b : common a b = common b a.
  Proof.
    apply Bool.eq_iff_eq_true. unfold common. rewrite !existsb_exists. split; intros [x [Hx H]];
      apply existsb_exists in H; destruct H as [y [Hy E]]; apply beq_bytes_eq in E; subst y;
      exists x; (split; [assumption|]); apply existsb_exists; exists x; (split; [assumption|apply beq_bytes_refl]).
  Qed.

  Lemma common_perm a a' b : Permutation a a' -> common a b = common a' b.
  Proof. intro H. unfold common. apply existsb_perm, H. Qed.

  Lemma vals_permt ch ch' k : permt ch ch' -> Permutation (map d_val (insts ch k)) (map d_val (insts ch' k)).
  Proof.
    intro H. apply (permt_insts _ _ k) in H. apply permt_sv in H. apply (Permutation_map snd) in H.
    rewrite !map_map in H. exact H.
  Qed.

  Lemma same_keys_sym a b : same_keys vs a b = same_keys vs b a.
  Proof.
    unfold same_keys. destruct (d_sid a =? d_sid b) eqn:E.
    - apply N.eqb_eq in E. rewrite E, N.eqb_refl. f_equal. apply forallb_ext_in. intros k _. apply common_sym.
    - rewrite N.eqb_sym, E. reflexivity.
  Qed.

  Lemma keyuniq_permt l f g : permt f g -> keyuniq_ctx vs l f = keyuniq_ctx vs l g.
  Proof.
    intro H. unfold keyuniq_ctx. apply pairwise_permt; [| |exact H].
    - intros a b. rewrite same_keys_sym. reflexivity.
    - intros s v d m ch ch' b Hc. unfold same_keys. cbn [d_sid]. f_equal. f_equal.
      apply forallb_ext_in. intros k _. unfold kvals. cbn [d_ch]. apply common_perm, vals_permt, Hc.
  Qed.

  Lemma same_llval_sym a b : same_llval vs a b = same_llval vs b a.
  Proof.
    unfold same_llval. destruct (d_sid a =? d_sid b) eqn:E.
    - apply N.eqb_eq in E. rewrite E, N.eqb_refl, beq_bytes_sym. reflexivity.
    - rewrite N.eqb_sym, E. reflexivity.
  Qed.

  Lemma llval_permt l f g : permt f g -> llval_ctx vs l f = llval_ctx vs l g.
  Proof.
    intro H. unfold llval_ctx. apply pairwise_permt; [| |exact H].
    - intros a b. rewrite same_llval_sym. reflexivity.
    - intros s v d m ch ch' b _. reflexivity.
  Qed.

  Lemma case_t_eq f g t : sids_eq f g -> case_t f t = case_t g t.
  Proof.
    intro H. induction t as [s ch IH|cid m cs IH|c d ch IH] using stree_ind'; cbn [case_t]; rewrite Forall_forall in IH.
    - reflexivity.
    - rewrite (filter_ext _ _ (fun c => sub_has_data_eq f g c H)). f_equal. apply forallb_ext_in. exact IH.
    - apply forallb_ext_in. exact IH.
  Qed.

  Lemma case_permt l f g : permt f g -> case_ctx l f = case_ctx l g.
  Proof. intro H. unfold case_ctx. apply forallb_ext_in. intros t _. apply case_t_eq, permt_sids, H. Qed.

  Lemma req_eq Pn Pc f g t : sids_eq f g -> (forall s ch, Pn f s ch = Pn g s ch) -> (forall m cs, Pc f m cs = Pc g m cs) ->
    forall eff, req vs Pn Pc f eff t = req vs Pn Pc g eff t.
  Proof.
    intros H Hn Hc. induction t as [s ch IH|cid m cs IH|c d ch IH] using stree_ind'; intro eff; cbn [req]; rewrite Forall_forall in IH.
    - rewrite Hn, (has_sid_eq f g s H). reflexivity.
    - rewrite Hc. f_equal. apply forallb_ext_in. intros x Hx. apply IH, Hx.
    - rewrite (sub_has_data_eq f g _ H). apply forallb_ext_in. intros x Hx. apply IH, Hx.
  Qed.

  Lemma mand_permt l f g : permt f g -> req_ctx vs (mand_node vs) (fun _ _ _ => true) l f = req_ctx vs (mand_node vs) (fun _ _ _ => true) l g.
  Proof.
    intro H. apply permt_sids in H. unfold req_ctx. apply forallb_ext_in. intros t _. apply req_eq; [exact H| |reflexivity].
    intros s ch. unfold mand_node. rewrite (has_sid_eq f g s H). reflexivity.
  Qed.

  Lemma mandc_permt l f g : permt f g -> req_ctx vs (fun _ _ _ => true) mand_choice l f = req_ctx vs (fun _ _ _ => true) mand_choice l g.
  Proof.
    intro H. apply permt_sids in H. unfold req_ctx. apply forallb_ext_in. intros t _. apply req_eq; [exact H|reflexivity|].
    intros m cs. unfold mand_choice. f_equal. apply existsb_ext_in. intros c _. apply sub_has_data_eq, H.
  Qed.

  Lemma min_permt l f g : permt f g -> req_ctx vs (min_node vs) (fun _ _ _ => true) l f = req_ctx vs (min_node vs) (fun _ _ _ => true) l g.
  Proof.
    intro H. apply permt_sids in H. unfold req_ctx. apply forallb_ext_in. intros t _. apply req_eq; [exact H| |reflexivity].
    intros s ch. unfold min_node. rewrite (count_eq f g s H). reflexivity.
  Qed.

  Lemma max_permt l f g : permt f g -> max_ctx vs l f = max_ctx vs l g.
  Proof.
    intro H. apply permt_sids in H. unfold max_ctx. apply forallb_ext_in. intros s _. unfold max_node.
    rewrite (count_eq f g s H). reflexivity.
  Qed.

  (* unique *)
  Lemma eff_in_eq f g s t : sids_eq f g -> forall eff chd, eff_in f eff chd s t = eff_in g eff chd s t.
  Proof.
    intro H. induction t as [s' ch IH|cid m cs IH|c d ch IH] using stree_ind'; intros eff chd; cbn [eff_in]; rewrite Forall_forall in IH.
    - reflexivity.
    - rewrite (existsb_ext_in _ (sub_has_data g) cs (fun c _ => sub_has_data_eq f g c H)).
      generalize (existsb (sub_has_data g) cs). intro b. clear -IH.
      induction cs as [|x r IHr]; cbn [first_some]; [reflexivity|]. rewrite (IH x (or_introl eq_refl)).
      destruct (eff_in g eff b s x); [reflexivity|]. apply IHr. intros y Hy. apply IH. right. exact Hy.
    - rewrite (sub_has_data_eq f g _ H). generalize (eff && (sub_has_data g (TCase c d ch) || d && negb chd)). intro b. clear -IH.
      induction ch as [|x r IHr]; cbn [first_some]; [reflexivity|]. rewrite (IH x (or_introl eq_refl)).
      destruct (eff_in g b false s x); [reflexivity|]. apply IHr. intros y Hy. apply IH. right. exact Hy.
  Qed.

  Lemma in_effect_eq l f g s : sids_eq f g -> in_effect l f s = in_effect l g s.
  Proof.
    intro H. unfold in_effect. replace (first_some (eff_in f true false s) l) with (first_some (eff_in g true false s) l); [reflexivity|].
    induction l as [|x r IH]; cbn [first_some]; [reflexivity|]. rewrite (eff_in_eq f g s x H). rewrite IH. reflexivity.
  Qed.

  Lemma flat_map_permt (F : forest -> list bytes) A B :
    (forall ch ch', permt ch ch' -> Permutation (F ch) (F ch')) -> permt A B ->
    Permutation (flat_map (fun d => F (d_ch d)) A) (flat_map (fun d => F (d_ch d)) B).
  Proof.
    intro HF. induction 1 as [f g H|s v d m ch ch' r H _|x f g _ IH|f g h _ IH1 _ IH2]; cbn [flat_map].
    - apply Permutation_flat_map, H.
    - apply Permutation_app_tail. cbn [d_ch]. apply HF, H.
    - apply Permutation_app_head, IH.
    - etransitivity; eassumption.
  Qed.

  Lemma uvals_permt : forall p l f g, permt f g -> Permutation (uvals vs l f p) (uvals vs l g p).
  Proof.
    induction p as [|s p IH]; intros l f g H; [reflexivity|].
    pose proof (permt_insts f g s H) as Hi. pose proof (permt_nil _ _ Hi) as Hn. pose proof (permt_sids f g H) as Hs.
    destruct p as [|s2 p2].
    - rewrite !uvals_one. destruct (insts f s) as [|x r] eqn:Ef.
      + rewrite (proj1 Hn eq_refl). rewrite (in_effect_eq l f g s Hs). reflexivity.
      + destruct (insts g s) as [|y r'] eqn:Eg; [discriminate (proj2 Hn eq_refl)|].
        apply permt_sv in Hi. apply (Permutation_map snd) in Hi. rewrite !map_map in Hi. exact Hi.
    - rewrite !uvals_cons2. destruct (insts f s) as [|x r] eqn:Ef.
      + rewrite (proj1 Hn eq_refl). rewrite (in_effect_eq l f g s Hs). reflexivity.
      + destruct (insts g s) as [|y r'] eqn:Eg; [discriminate (proj2 Hn eq_refl)|].
        apply (flat_map_permt (fun ch => uvals vs (st_children l s) ch (s2 :: p2))); [|exact Hi].
        intros ch ch' Hc. apply IH, Hc.
  Qed.

  Lemma uq_conflict_sym ls u a b : uq_conflict vs ls u a b = uq_conflict vs ls u b a.
  Proof. unfold uq_conflict. destruct u; [reflexivity|]. apply forallb_ext_in. intros p _. apply common_sym. Qed.

  Lemma unique_node_permt ls f g s : permt f g -> unique_node vs ls f s = unique_node vs ls g s.
  Proof.
    intro H. unfold unique_node. destruct (kind vs s); try reflexivity.
    apply pairwise_permt; [| |apply permt_insts, H].
    - intros a b. f_equal. apply existsb_ext_in. intros u _. apply uq_conflict_sym.
    - intros s' v d m ch ch' b Hc. f_equal. apply existsb_ext_in. intros u _. unfold uq_conflict. destruct u; [reflexivity|].
      apply forallb_ext_in. intros p _. cbn [d_ch]. apply common_perm, uvals_permt, Hc.
  Qed.

  Lemma unique_permt l f g : permt f g -> unique_ctx vs l f = unique_ctx vs l g.
  Proof.
    intro H. unfold unique_ctx. apply forallb_ext_in. intros t _.
    induction t as [s ch IH|cid m cs IH|c d ch IH] using stree_ind'; cbn [unique_t]; rewrite Forall_forall in IH.
    - apply unique_node_permt, H.
    - apply forallb_ext_in. exact IH.
    - apply forallb_ext_in. exact IH.
  Qed.

  Theorem rules_hold_permt f g : permt f g -> rules_hold ty vs f = rules_hold ty vs g.
  Proof.
    intro H. unfold rules_hold, rfc_single, rfc_keyuniq, rfc_llval, rfc_case, rfc_mand, rfc_mand_choice, rfc_min, rfc_max, rfc_unique.
    rewrite (types_permt f g H), (keys_permt f g H).
    rewrite (all_ctx_permt _ single_permt f g H), (all_ctx_permt _ keyuniq_permt f g H), (all_ctx_permt _ llval_permt f g H),
      (all_ctx_permt _ case_permt f g H), (all_ctx_permt _ mand_permt f g H), (all_ctx_permt _ mandc_permt f g H),
      (all_ctx_permt _ min_permt f g H), (all_ctx_permt _ max_permt f g H), (all_ctx_permt _ unique_permt f g H).
    reflexivity.
  Qed.

  Lemma permt_app_head l f g : permt f g -> permt (l ++ f) (l ++ g).
  Proof. intro H. induction l as [|x l IH]; [exact H|]. cbn [app]. apply permt_skip, IH. Qed.

  Lemma prune_node_unfold s v d m ch :
    prune_node vs (DN s v d m ch) =
    match kind vs s, prune vs ch with
    | KCont false, [] => None
    | _, _ => Some (DN s v d m (prune vs ch))
    end.
  Proof. reflexivity. Qed.

  Lemma prune_cons x r :
    prune vs (x :: r) = (match prune_node vs x with Some c' => [c'] | None => [] end) ++ prune vs r.
  Proof. reflexivity. Qed.

  Lemma prune_permt f g : permt f g -> permt (prune vs f) (prune vs g).
  Proof.
    induction 1 as [f g H|s v d m ch ch' r H IH|x f g _ IH|f g h _ IH1 _ IH2].
    - apply permt_perm. unfold prune. apply Permutation_flat_map, H.
    - rewrite !prune_cons, !prune_node_unfold.
      pose proof (permt_nil _ _ IH) as Hn.
      destruct (prune vs ch) as [|a ra] eqn:E1.
      + rewrite (proj1 Hn eq_refl). apply permt_refl.
      + destruct (prune vs ch') as [|b rb] eqn:E2; [discriminate (proj2 Hn eq_refl)|].
        destruct (kind vs s) as [[|]| | | |]; cbn [app]; apply permt_child; exact IH.
    - rewrite !prune_cons. apply permt_app_head, IH.
    - eapply permt_trans; eassumption.
  Qed.

  Theorem rfc_valid_permt f g : permt f g -> rfc_valid ty vs f = rfc_valid ty vs g.
  Proof. intro H. unfold rfc_valid. apply rules_hold_permt, prune_permt, H. Qed.
End Perm.

Lemma nodflt_permt f g : permt f g -> nodflt f = nodflt g.
Proof.
  unfold nodflt. induction 1 as [f g H|s v d m ch ch' r H IH|x f g _ IH|f g h _ IH1 _ IH2]; cbn [forallb].
  - apply forallb_perm, H.
  - cbn [nodflt_node]. rewrite IH. reflexivity.
  - rewrite IH. reflexivity.
  - congruence.
Qed.

Lemma no_empty_np_permt vs f g : permt f g -> no_empty_np vs f = no_empty_np vs g.
Proof.
  unfold no_empty_np. induction 1 as [f g H|s v d m ch ch' r H IH|x f g _ IH|f g h _ IH1 _ IH2]; cbn [forallb].
  - apply forallb_perm, H.
  - cbn [no_empty_np_node]. rewrite IH. f_equal. f_equal. pose proof (permt_nil _ _ H) as Hn.
    destruct ch, ch'; try reflexivity; [discriminate (proj1 Hn eq_refl)|discriminate (proj2 Hn eq_refl)].
  - rewrite IH. reflexivity.
  - congruence.
Qed.

Lemma fresh_permt vs f g : permt f g -> fresh vs f = fresh vs g.
Proof. intro H. unfold fresh. rewrite (nodflt_permt f g H), (no_empty_np_permt vs f g H). reflexivity. Qed.

Theorem impl_verdict_permt ty vs f g :
  vschema_ok vs = true -> fresh vs f = true -> permt f g ->
  (impl_parse_validate vs ty f = VOk <-> impl_parse_validate vs ty g = VOk).
Proof.
  intros Hw Hf H. assert (Hg : fresh vs g = true) by (rewrite <- (fresh_permt vs f g H); exact Hf).
  rewrite (validate_iff_rfc ty vs f Hw Hf), (validate_iff_rfc ty vs g Hw Hg), (rfc_valid_permt ty vs f g H). reflexivity.
Qed.

(* ------------------------------------------------------------------------------------------- *)
(* witnesses                                                                                     *)
(* ------------------------------------------------------------------------------------------- *)
Definition ty_any (_ : sid) (_ : bytes) : bool := true.

Definition si (k : skind) (p : option sid) (keys : list sid) (dflts : list bytes) (mand : bool) (mn : N) (mx : option N) : sinfo :=
  mk_sinfo k p keys false true dflts [] mand mn mx OBytes.

(* list l { key k; leaf a; }  --  sids 0 l, 1 k, 2 a *)
Definition w1_schema : vschema :=
  mk_vschema [(0, si KList None [1] [] false 0 None); (1, si KLeaf (Some 0) [] [] false 0 None);
              (2, si KLeaf (Some 0) [] [] false 0 None)]
             [TNode 0 [TNode 1 []; TNode 2 []]] [].

(* the tree after lyd_unlink_tree + lyd_insert_sibling of the leaf a of entry 1 into entry 2 (both entries validated
   before: no node is flagged new): entry 2 holds two instances of a *)
Definition w1_tree : vforest :=
  [VN 0 [] false false [] [VN 1 [49] false false [] []];
   VN 0 [] false false [] [VN 1 [50] false false [] []; VN 2 [65; 50] false false [] []; VN 2 [65; 49] false false [] []]].

Lemma w1_accepts : impl_validate w1_schema w1_tree = VOk.
Proof. vm_compute. reflexivity. Qed.
Lemma w1_invalid : rfc_valid ty_any w1_schema (explicit w1_tree) = false.
Proof. vm_compute. reflexivity. Qed.
Lemma w1_wf : vschema_ok w1_schema = true.
Proof. vm_compute. reflexivity. Qed.
(* the same tree with every node flagged new is rejected: the flag is what the verdict hangs on *)
Lemma w1_new_rejected : impl_validate w1_schema (map mark_new (explicit w1_tree)) = VErr EDup.
Proof. vm_compute. reflexivity. Qed.

(* list l { key k; unique "p/x"; container p { presence; leaf x { default "d"; } } }  --  sids 0 l, 1 k, 2 p, 3 x *)
Definition w2_schema : vschema :=
  mk_vschema [(0, si KList None [1] [] false 0 None); (1, si KLeaf (Some 0) [] [] false 0 None);
              (2, si (KCont true) (Some 0) [] [] false 0 None); (3, si KLeaf (Some 2) [] [[100]] false 0 None)]
             [TNode 0 [TNode 1 []; TNode 2 [TNode 3 []]]] [(0, [[[2; 3]]])].
(* two entries without the presence container: x neither exists nor has a default in use. Regression case of the
   former finding unique-default-not-in-use (fixed by ba1198e): the instance is valid and accepted. *)
Definition w2_tree : forest :=
  [DN 0 [] false [] [DN 1 [49] false [] []]; DN 0 [] false [] [DN 1 [50] false [] []]].
(* with the presence container in both entries the default of x is in use twice: data-not-unique *)
Definition w2_tree_p : forest :=
  [DN 0 [] false [] [DN 1 [49] false [] []; DN 2 [] false [] []]; DN 0 [] false [] [DN 1 [50] false [] []; DN 2 [] false [] []]].

Lemma w2_facts :
  vschema_ok w2_schema = true /\ fresh w2_schema w2_tree = true /\ rfc_valid ty_any w2_schema w2_tree = true /\
  impl_parse_validate w2_schema ty_any w2_tree = VOk /\
  rfc_valid ty_any w2_schema w2_tree_p = false /\ impl_parse_validate w2_schema ty_any w2_tree_p = VErr ENoUniq.
Proof. vm_compute. repeat split; reflexivity. Qed.

(* a schema with every modelled construct and a valid instance of it: the hypotheses of the theorems are satisfiable
     container c (0) { leaf m (1) mandatory; choice ch mandatory { case a { leaf x (2); } case b { leaf y (3); } } }
     list l (4) { key k (5); unique "u"; min-elements 1; max-elements 2; leaf u (6) default "d"; }
     leaf-list ll (7) { max-elements 3; }                                                        *)
Definition ex_schema : vschema :=
  mk_vschema [(0, si (KCont false) None [] [] false 0 None); (1, si KLeaf (Some 0) [] [] true 0 None);
              (2, si KLeaf (Some 0) [] [] false 0 None); (3, si KLeaf (Some 0) [] [] false 0 None);
              (4, si KList None [5] [] false 1 (Some 2)); (5, si KLeaf (Some 4) [] [] false 0 None);
              (6, si KLeaf (Some 4) [] [[100]] false 0 None); (7, si KLeafList None [] [] false 0 (Some 3))]
             [TNode 0 [TNode 1 []; TChoice 0 true [TCase 0 false [TNode 2 []]; TCase 1 false [TNode 3 []]]];
              TNode 4 [TNode 5 []; TNode 6 []]; TNode 7 []]
             [(4, [[[6]]])].
Definition ex_tree : forest :=
  [DN 0 [] false [] [DN 1 [109] false [] []; DN 3 [121] false [] []];
   DN 4 [] false [] [DN 5 [49] false [] []]; DN 4 [] false [] [DN 5 [50] false [] []; DN 6 [101] false [] []];
   DN 7 [97] false [] []; DN 7 [98] false [] []].
(* one mutation per class *)
Definition ex_no_mand : forest :=
  [DN 0 [] false [] [DN 3 [121] false [] []]; DN 4 [] false [] [DN 5 [49] false [] []]].
Definition ex_no_choice : forest :=
  [DN 0 [] false [] [DN 1 [109] false [] []]; DN 4 [] false [] [DN 5 [49] false [] []]].
Definition ex_two_cases : forest :=
  [DN 0 [] false [] [DN 1 [109] false [] []; DN 2 [120] false [] []; DN 3 [121] false [] []]; DN 4 [] false [] [DN 5 [49] false [] []]].
Definition ex_too_few : forest := [DN 0 [] false [] [DN 1 [109] false [] []; DN 3 [121] false [] []]].
Definition ex_too_many : forest :=
  [DN 0 [] false [] [DN 1 [109] false [] []; DN 3 [121] false [] []];
   DN 4 [] false [] [DN 5 [49] false [] []; DN 6 [97] false [] []]; DN 4 [] false [] [DN 5 [50] false [] []; DN 6 [98] false [] []];
   DN 4 [] false [] [DN 5 [51] false [] []; DN 6 [99] false [] []]].
Definition ex_not_unique : forest :=     (* through the default value d of u *)
  [DN 0 [] false [] [DN 1 [109] false [] []; DN 3 [121] false [] []];
   DN 4 [] false [] [DN 5 [49] false [] []]; DN 4 [] false [] [DN 5 [50] false [] []; DN 6 [100] false [] []]].
Definition ex_dup_key : forest :=
  [DN 0 [] false [] [DN 1 [109] false [] []; DN 3 [121] false [] []];
   DN 4 [] false [] [DN 5 [49] false [] []]; DN 4 [] false [] [DN 5 [49] false [] []; DN 6 [101] false [] []]].

Lemma ex_facts :
  vschema_ok ex_schema = true /\ fresh ex_schema ex_tree = true /\
  rfc_valid ty_any ex_schema ex_tree = true /\ impl_parse_validate ex_schema ty_any ex_tree = VOk /\
  impl_parse_validate ex_schema ty_any ex_no_mand = VErr ENoMand /\
  impl_parse_validate ex_schema ty_any ex_no_choice = VErr ENoMandChoice /\
  impl_parse_validate ex_schema ty_any ex_two_cases = VErr EDupCase /\
  impl_parse_validate ex_schema ty_any ex_too_few = VErr ENoMin /\
  impl_parse_validate ex_schema ty_any ex_too_many = VErr ENoMax /\
  impl_parse_validate ex_schema ty_any ex_not_unique = VErr ENoUniq /\
  impl_parse_validate ex_schema ty_any ex_dup_key = VErr EDup.
Proof. vm_compute. repeat split; reflexivity. Qed.

(* histories on w1_schema (list l {key k; leaf a}): entry 1 validated before (un-flagged), then
   - a second leaf a added to it (flagged new): rejected as a duplicate although the other instance is old,
   - a second entry with the same key added (flagged new): rejected,
   - a new entry with another key: accepted *)
Definition h1_dup_leaf : vforest :=
  [VN 0 [] false false [] [VN 1 [49] false false [] []; VN 2 [65] false false [] []; VN 2 [66] false true [] []]].
Definition h1_dup_key : vforest :=
  [VN 0 [] false false [] [VN 1 [49] false false [] []];
   VN 0 [] false true [] [VN 1 [49] false true [] []]].
Definition h1_fresh_entry : vforest :=
  [VN 0 [] false false [] [VN 1 [49] false false [] []];
   VN 0 [] false true [] [VN 1 [50] false true [] []]].
Lemma h1_facts :
  hist_ok w1_schema h1_dup_leaf = true /\ impl_validate w1_schema h1_dup_leaf = VErr EDup /\
  hist_ok w1_schema h1_dup_key = true /\ impl_validate w1_schema h1_dup_key = VErr EDup /\
  hist_ok w1_schema h1_fresh_entry = true /\ impl_validate w1_schema h1_fresh_entry = VOk /\
  hist_ok w1_schema w1_tree = false.
Proof. vm_compute. repeat split; reflexivity. Qed.

(* a case that STARTS with a default leaf and a non-presence container left implicit and is selected by a later sibling:
     choice c { case a { leaf d (0) default; container np (1) { leaf x (2) default }; leaf e (3); leaf m (4) mandatory;
                         leaf-list ll (5) max-elements 1 } case b { leaf be (6) } }
   the case's own constraints are enforced *)
Definition ld_schema : vschema :=
  mk_vschema [(0, si KLeaf None [] [[49]] false 0 None); (1, si (KCont false) None [] [] false 0 None);
              (2, si KLeaf (Some 1) [] [[120]] false 0 None); (3, si KLeaf None [] [] false 0 None);
              (4, si KLeaf None [] [] true 0 None); (5, si KLeafList None [] [] false 0 (Some 1));
              (6, si KLeaf None [] [] false 0 None)]
             [TChoice 0 false [TCase 0 false [TNode 0 []; TNode 1 [TNode 2 []]; TNode 3 []; TNode 4 []; TNode 5 []];
                               TCase 1 false [TNode 6 []]]] [].
Lemma ld_facts :
  vschema_ok ld_schema = true /\
  impl_parse_validate ld_schema ty_any [DN 3 [101] false [] []] = VErr ENoMand /\
  impl_parse_validate ld_schema ty_any [DN 3 [101] false [] []; DN 4 [109] false [] []] = VOk /\
  impl_parse_validate ld_schema ty_any [DN 4 [109] false [] []; DN 5 [97] false [] []; DN 5 [98] false [] []] = VErr ENoMax /\
  impl_parse_validate ld_schema ty_any [DN 6 [98] false [] []] = VOk.
Proof. vm_compute. repeat split; reflexivity. Qed.

(* multi-error run of an instance with three violations (ex_schema: no mandatory leaf, two cases, too many entries):
   all are logged, the first one is the error of the plain run *)
Definition ex_three : forest :=
  [DN 0 [] false [] [DN 2 [120] false [] []; DN 3 [121] false [] []];
   DN 4 [] false [] [DN 5 [49] false [] []; DN 6 [97] false [] []]; DN 4 [] false [] [DN 5 [50] false [] []; DN 6 [98] false [] []];
   DN 4 [] false [] [DN 5 [51] false [] []; DN 6 [99] false [] []]].
Lemma ex_multi :
  impl_validate_multi ex_schema (map mark_new ex_three) = [EDupCase; ENoMax; ENoMand] /\
  impl_validate ex_schema (map mark_new ex_three) = VErr EDupCase /\
  impl_validate_multi ex_schema (map mark_new ex_tree) = [].
Proof. vm_compute. repeat split; reflexivity. Qed.

(* the statement for trees with ARBITRARY flags (values of their types, list entries with their keys) *)
Definition validate_iff_rfc_flags_statement : Prop :=
  forall ty vs (t : vforest),
    vschema_ok vs = true ->
    rfc_types ty vs (explicit t) = true -> rfc_keys vs (explicit t) = true ->
    (impl_validate vs t = VOk <-> rfc_valid ty vs (explicit t) = true).

Lemma validate_iff_rfc_flags_refuted : ~ validate_iff_rfc_flags_statement.
Proof.
  intro H. specialize (H ty_any w1_schema w1_tree w1_wf).
  assert (H1 : rfc_types ty_any w1_schema (explicit w1_tree) = true) by (vm_compute; reflexivity).
  assert (H2 : rfc_keys w1_schema (explicit w1_tree) = true) by (vm_compute; reflexivity).
  specialize (H H1 H2). rewrite w1_accepts, w1_invalid in H. destruct H as [H _]. specialize (H eq_refl). discriminate.
Qed.

Lemma apptag_table :
  apptag ENoMandChoice = [109;105;115;115;105;110;103;45;99;104;111;105;99;101] /\
  apptag ENoMin = [116;111;111;45;102;101;119;45;101;108;101;109;101;110;116;115] /\
  apptag ENoMax = [116;111;111;45;109;97;110;121;45;101;108;101;109;101;110;116;115] /\
  apptag ENoUniq = [100;97;116;97;45;110;111;116;45;117;110;105;113;117;101] /\
  apptag ENoMand = [] /\ apptag EDup = [] /\ apptag EDupCase = [] /\ apptag EKey = [] /\ apptag EType = [].
Proof. repeat split; reflexivity. Qed.




(* container top (0) { choice ch mandatory { case a { leaf x (1); choice inner default d1 { case d1 { leaf y (2) default 5 }
   case d2 { leaf w (3) } } } case b { leaf z (4) } } leaf keep (5) }
   The tree after: parse + validate <top><x/><keep/></top> (y is added as a default node), lyd_free_tree(x). Before
   357db45 y (flagged default) kept case a alive - lyd_validate_autodel_case_dflt looked at the innermost case d1 only,
   which is a default case - and the mandatory choice counted as satisfied. *)
Definition w3_schema : vschema :=
  mk_vschema [(0, si (KCont false) None [] [] false 0 None); (1, si KLeaf (Some 0) [] [] false 0 None);
              (2, si KLeaf (Some 0) [] [[53]] false 0 None); (3, si KLeaf (Some 0) [] [] false 0 None);
              (4, si KLeaf (Some 0) [] [] false 0 None); (5, si KLeaf (Some 0) [] [] false 0 None)]
             [TNode 0 [TChoice 0 true [TCase 0 false [TNode 1 []; TChoice 1 false [TCase 0 true [TNode 2 []]; TCase 1 false [TNode 3 []]]];
                                       TCase 1 false [TNode 4 []]];
                       TNode 5 []]] [].
Definition w3_tree : vforest :=
  [VN 0 [] false false [] [VN 2 [53] true false [] []; VN 5 [107] false false [] []]].

(* Regression case of the former finding stale-nested-default-case (fixed by 357db45): the stale default y is
   auto-deleted and the mandatory choice is reported, as for the explicit content parsed afresh. *)
Lemma w3_facts :
  vschema_ok w3_schema = true /\
  impl_validate w3_schema w3_tree = VErr ENoMandChoice /\ rfc_valid ty_any w3_schema (explicit w3_tree) = false /\
  rfc_mand_choice w3_schema (explicit w3_tree) = false /\
  impl_parse_validate w3_schema ty_any (explicit w3_tree) = VErr ENoMandChoice.
Proof. vm_compute. repeat split; reflexivity. Qed.

Lemma error_class_report ty vs f e :
  vschema_ok vs = true -> fresh vs f = true ->
  class_ok ty vs f e = false -> (forall e', e' <> e -> class_ok ty vs f e' = true) ->
  impl_parse_validate vs ty f = VErr e /\ report e = (7, 9, apptag e).
Proof. intros. split; [apply error_class; assumption|reflexivity]. Qed.

(* ------------------------------------------------------------------------------------------- *)
(* identityref: derived from ALL bases                                                            *)
(* ------------------------------------------------------------------------------------------- *)
(* RFC 7950 7.18.2 / 9.10.2: d is derived from b if d has b as a base, or a base of d is derived from b (transitive,
   irreflexive closure of the base statements); here with the chain of edges used *)
Inductive IdPath (E : idedges) : N -> N -> list (N * N) -> Prop :=
| IdP1 b d : In (b, d) E -> IdPath E b d [(b, d)]
| IdPS b m d p : In (b, m) E -> IdPath E m d p -> IdPath E b d ((b, m) :: p).
Definition DerivedFrom (E : idedges) (b d : N) : Prop := exists p, IdPath E b d p.
(* the compiler rejects an identity that is (transitively) its own base *)
Definition IdAcyclic (E : idedges) : Prop := forall x p, ~ IdPath E x x p.

Lemma id_derived_in E b d : In d (id_derived E b) <-> In (b, d) E.
Proof.
  unfold id_derived. rewrite in_map_iff. split.
  - intros [[b' d'] [Hd Hin]]. apply filter_In in Hin. destruct Hin as [Hin Hb]. cbn in *. apply N.eqb_eq in Hb. subst. exact Hin.
  - intro H. exists (b, d). split; [reflexivity|]. apply filter_In. split; [exact H|]. cbn. apply N.eqb_refl.
Qed.

Lemma isderived_sound E : forall fuel b d, isderived E fuel b d = true -> DerivedFrom E b d.
Proof.
  induction fuel as [|k IH]; intros b d H; [discriminate|]. cbn [isderived] in H.
  apply existsb_exists in H. destruct H as [m [Hm H]]. apply id_derived_in in Hm. apply orb_true_iff in H.
  destruct H as [H|H].
  - apply N.eqb_eq in H. subst m. exists [(b, d)]. constructor. exact Hm.
  - destruct (IH m d H) as [p Hp]. exists ((b, m) :: p). constructor; assumption.
Qed.

Lemma isderived_path E : forall p b d, IdPath E b d p -> forall fuel, (length p <= fuel)%nat -> isderived E fuel b d = true.
Proof.
  intros p b d H. induction H as [b d Hin|b m d p Hin Hp IH]; intros fuel Hl; (destruct fuel as [|k]; [cbn in Hl; lia|]);
    cbn [isderived]; apply existsb_exists.
  - exists d. split; [apply id_derived_in, Hin|]. rewrite N.eqb_refl. reflexivity.
  - exists m. split; [apply id_derived_in, Hin|]. rewrite IH; [apply orb_true_r|]. cbn in Hl. lia.
Qed.

Lemma idpath_incl E b d p : IdPath E b d p -> incl p E.
Proof.
  intro H. induction H as [b d Hin|b m d p Hin Hp IH]; intros e He.
  - destruct He as [<-|[]]. exact Hin.
  - destruct He as [<-|He]; [exact Hin|apply IH, He].
Qed.

(* a path that runs through the edge (x, y): its part before that edge leads to x *)
Lemma idpath_prefix E : forall l2 m d x y l3, IdPath E m d (l2 ++ (x, y) :: l3) -> (l2 = [] /\ m = x) \/ IdPath E m x l2.
Proof.
  induction l2 as [|e l2 IH]; intros m d x y l3 H.
  - left. split; [reflexivity|]. cbn [app] in H. inversion H; subst; reflexivity.
  - right. cbn [app] in H. inversion H as [b0 d0 Hin E1|b0 m0 d0 p0 Hin Hp E1]; subst.
    + destruct l2; discriminate.
    + destruct (IH _ _ _ _ _ Hp) as [[-> ->]|Hq].
      * constructor. exact Hin.
      * constructor; assumption.
Qed.

Lemma idpath_nodup E : IdAcyclic E -> forall b d p, IdPath E b d p -> NoDup p.
Proof.
  intros Hac b d p H. induction H as [b d Hin|b m d p Hin Hp IH].
  - constructor; [intros []|constructor].
  - constructor; [|exact IH]. intro Hi. apply in_split in Hi. destruct Hi as [l2 [l3 ->]].
    destruct (idpath_prefix E l2 m d b m l3 Hp) as [[-> ->]|Hq].
    + apply (Hac b [(b, b)]). constructor. exact Hin.
    + apply (Hac b ((b, m) :: l2)). constructor; assumption.
Qed.

Theorem isderived_iff E b d : IdAcyclic E -> (isderived E (length E) b d = true <-> DerivedFrom E b d).
Proof.
  intro Hac. split; [apply isderived_sound|]. intros [p Hp]. apply (isderived_path E p b d Hp).
  apply NoDup_incl_length; [apply (idpath_nodup E Hac b d p Hp)|apply (idpath_incl E b d p Hp)].
Qed.

(* identityref_check_base accepts exactly the identities derived from ALL the bases of the type *)
Theorem idref_check_iff E bases ident : IdAcyclic E ->
  (idref_check E bases ident = true <-> forall b, In b bases -> DerivedFrom E b ident).
Proof.
  intro Hac. unfold idref_check. rewrite forallb_forall. split; intros H b Hb; apply (isderived_iff E b ident Hac), H, Hb.
Qed.

(* the edges of module mi / m1 of the type family of the oracle (A=0 B=1 X=2 C=3 D=4 E=5 F=6 AX=7 G=8 H=9 K=10 L=11):
   D is derived from both A and B, C only from A *)
Definition id_example : idedges :=
  [(0, 3); (0, 4); (1, 4); (4, 5); (1, 6); (0, 7); (2, 7); (3, 8); (6, 8); (5, 9); (8, 10); (2, 10)].
Lemma id_example_facts :
  idref_check id_example [0; 1] 4 = true /\ idref_check id_example [0; 1] 3 = false /\
  idref_check id_example [0; 1] 9 = true /\ idref_check id_example [0; 1; 2] 10 = true /\
  idref_check id_example [0; 1; 2] 8 = false /\ idref_check id_example [0] 0 = false.
Proof. vm_compute. repeat split; reflexivity. Qed.
