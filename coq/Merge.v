(* Merge.v -- model of lyd_merge_siblings() / lyd_merge_tree() (src/tree_data.c: lyd_merge, lyd_merge_sibling_r) and of
   lyd_dup_*() on the Tree.v values. MODEL ONLY (proofs: MergeP.v).

   Transcribed: matching of a source sibling (lyd_find_sibling_first for (leaf-)lists, lyd_find_sibling_val by schema
   otherwise), the duplicate-instance cache (lyd_dup_inst_next), the update of a matched node (leaf: lyd_change_term_val
   with its default-flag handling and LYD_MERGE_DEFAULTS / LYD_MERGE_WITH_FLAGS; leaf-list: an explicit instance clears
   the default flag of the matching one (470e174); anydata: value and flags copied), the walk up the parents of
   lyd_np_cont_dflt_del / lyd_np_cont_dflt_set, the recursion over the source children without keys, the insertion of an
   unmatched source subtree with lyd_insert_node (Tree.insert_node; lyds_insert2 of the destructive mode places a node at
   the same position, 87c1fbb).

   Not in the model (not in Tree.v): LYD_NEW (set on everything merged in unless WITH_FLAGS), opaque nodes, the merge
   callback, modules filter, hashes / lyds pool (no effect on the result). LYD_MERGE_DESTRUCT changes only what happens
   to the SOURCE (unmatched subtrees are moved instead of copied, the rest is freed): the resulting target is the same
   function of (target, source), so the option does not appear here; T2 runs both modes against this one function.

   Deviations on non-canonical input (the theorems assume Canon / uniq_idsb):
     - key children are skipped wherever they are (C: lyd_child_no_keys skips the leading run of keys; the same when keys
       come first);
     - with a children hash table the set of equal duplicate instances is in hash-chain order, here in sibling order
       (observable only through default flags / metadata of several fully equal instances of a key-less list);
     - full-recursion equality of duplicate instances (lyd_compare_siblings_) pairs sorted children through a lookup, here
       positionally (the same on canonical children without duplicates). *)
From LY Require Import Base Tree.
Local Open Scope N_scope.

Record mopts := mk_mopts {
  mo_defaults : bool;        (* LYD_MERGE_DEFAULTS: default source leaves overwrite too *)
  mo_with_flags : bool       (* LYD_MERGE_WITH_FLAGS: a merged leaf gets exactly the source flags *)
}.

(* request to the parent chain: lyd_np_cont_dflt_del(parent) / lyd_np_cont_dflt_set(parent) *)
Inductive sig := SDel | SSet.

(* lyd_compare_single(a, b, LYD_COMPARE_FULL_RECURSION) for nodes of one schema parent: schema, value, children
   (not the default flag - LYD_COMPARE_DEFAULTS is not used - and not metadata) *)
Fixpoint deq (a b : dnode) {struct a} : bool :=
  match a, b with
  | DN s1 v1 _ _ c1, DN s2 v2 _ _ c2 =>
      (s1 =? s2) && beq_bytes v1 v2 &&
      (fix go (l1 l2 : list dnode) {struct l1} : bool :=
         match l1, l2 with
         | [], [] => true
         | x :: l1', y :: l2' => deq x y && go l1' l2'
         | _, _ => false
         end) c1 c2
  end.

(* is x the instance the source node src is looking for:
   lyd_find_sibling_first(): duplicate-instance lists by full comparison, other (leaf-)lists by keys / value;
   lyd_find_sibling_val(schema, NULL): leaf / container / anydata by schema *)
Definition match_eq (sch : schema) (src x : dnode) : bool :=
  (d_sid x =? d_sid src) &&
  (if multi sch (d_sid src)
   then if dup_inst sch (d_sid src) then deq src x else same_inst sch src x
   else true).

(* index of the k-th matching sibling *)
Fixpoint match_idx (sch : schema) (src : dnode) (trg : forest) (k : nat) (i : nat) : option nat :=
  match trg with
  | [] => None
  | x :: r =>
      if match_eq sch src x
      then match k with O => Some i | S k' => match_idx sch src r k' (S i) end
      else match_idx sch src r k (S i)
  end.

Definition count_match (sch : schema) (src : dnode) (trg : forest) : nat :=
  length (filter (match_eq sch src) trg).

(* struct lyd_dup_inst per first instance: here per class representative (a source node): (rep, set->count, used) *)
Definition cache := list (dnode * nat * nat).

Fixpoint cache_find (sch : schema) (c : cache) (src : dnode) : option (nat * nat) :=
  match c with
  | [] => None
  | (r, cnt, used) :: c' => if match_eq sch r src then Some (cnt, used) else cache_find sch c' src
  end.

Fixpoint cache_bump (sch : schema) (c : cache) (src : dnode) : cache :=
  match c with
  | [] => []
  | (r, cnt, used) :: c' =>
      if match_eq sch r src then (r, cnt, S used) :: c' else (r, cnt, used) :: cache_bump sch c' src
  end.

(* lyd_dup_inst_next() for a source node that has at least one match: which of the equal instances to use
   (None: all used up, only for duplicate-instance lists) *)
Definition dup_inst_next (sch : schema) (c : cache) (src : dnode) (trg : forest) : option nat * cache :=
  match cache_find sch c src with
  | None => (Some O, (src, count_match sch src trg, 1%nat) :: c)
  | Some (cnt, used) =>
      if Nat.eqb used cnt
      then ((if dup_inst sch (d_sid src) then None else Some O), c)
      else (Some used, cache_bump sch c src)
  end.

Fixpoint replace_nth {A} (i : nat) (l : list A) (x : A) : list A :=
  match l, i with
  | [], _ => []
  | _ :: r, O => x :: r
  | a :: r, S i' => a :: replace_nth i' r x
  end.

Fixpoint others_dflt (i : nat) (l : forest) : bool :=
  match l, i with
  | [], _ => true
  | _ :: r, O => forallb d_dflt r
  | a :: r, S i' => d_dflt a && others_dflt i' r
  end.

(* the walk up of lyd_np_cont_dflt_del / _set seen from ONE parent: np = the parent is a non-presence container,
   others = its children other than the one the request comes from all have the default flag (the child itself has it
   when it asks for SSet), flag = the parent's default flag. Returns the new flag and the requests that go further up. *)
Fixpoint apply_sigs (np others flag : bool) (sigs : list sig) : bool * list sig :=
  match sigs with
  | [] => (flag, [])
  | SDel :: r =>
      if flag then let '(f, up) := apply_sigs np others false r in (f, SDel :: up)
      else apply_sigs np others flag r
  | SSet :: r =>
      if np && negb flag && others then let '(f, up) := apply_sigs np others true r in (f, SSet :: up)
      else apply_sigs np others flag r
  end.

(* update of the matched node itself: (new node, requests for its parent) *)
Definition merge_value (sch : schema) (o : mopts) (src t : dnode) : dnode * list sig :=
  match kind_of sch (d_sid t) with
  | KLeaf =>
      if mo_defaults o || negb (d_dflt src) then
        (* lyd_change_term_val(match, src value, 0, src default flag) *)
        let t1 := set_val t (d_val src) in
        let '(t2, sg) :=
          if d_dflt t1 && negb (d_dflt src) then (set_dflt t1 false, [SDel])
          else if negb (d_dflt t1) && d_dflt src then (set_dflt t1 true, [SSet])
          else (t1, []) in
        ((if mo_with_flags o then set_dflt t2 (d_dflt src) else t2), sg)
      else (t, [])
  | KLeafList =>
      if d_dflt t && negb (d_dflt src) then (set_dflt t false, [SDel]) else (t, [])
  | KAny =>
      if beq_bytes (d_val src) (d_val t) then (t, []) else (set_dflt (set_val t (d_val src)) (d_dflt src), [])
  | _ => (t, [])
  end.

(* result of merging one source sibling: target siblings, cache, requests for the parent of the siblings, and whether
   the siblings other than the matched one all carry the default flag *)
Definition mres := (forest * cache * list sig * bool)%type.

Section Children.
  Variable sch : schema.
  Variable step : dnode -> forest -> cache -> mres.
  Variable np : bool.          (* the node whose children are merged is a non-presence container *)
  (* LY_LIST_FOR_SAFE(lyd_child_no_keys(sibling_src)) lyd_merge_sibling_r(&match->child, match, &child_src, ..) with the
     parent's flag updated as the requests arrive *)
  Fixpoint merge_children (l : list dnode) (tch : forest) (cc : cache) (flag : bool) (up : list sig)
    : forest * bool * list sig :=
    match l with
    | [] => (tch, flag, up)
    | x :: l' =>
        if is_key sch (d_sid x) then merge_children l' tch cc flag up
        else
          let '(tch', cc', sg, oth) := step x tch cc in
          let '(flag', up') := apply_sigs np oth flag sg in
          merge_children l' tch' cc' flag' (up ++ up')
    end.
End Children.

(* lyd_merge_sibling_r(first_trg, parent_trg, &sibling_src, ..) *)
Fixpoint merge_sib (sch : schema) (o : mopts) (src : dnode) (trg : forest) (c : cache) {struct src} : mres :=
  match src with
  | DN s v d m ch =>
      let sel :=
        match match_idx sch src trg O O with
        | None => (None, c, true)                                       (* first_inst = 1 *)
        | Some _ => let '(k, c') := dup_inst_next sch c src trg in (k, c', false)
        end in
      let '(k, c1, first_inst) := sel in
      match match k with Some k' => match_idx sch src trg k' O | None => None end with
      | Some i =>
          let t := nth i trg src in
          let '(t1, sg1) := merge_value sch o src t in
          let '(ch', flag', up) :=
            merge_children sch (merge_sib sch o) (is_np_cont sch (d_sid t1)) ch (d_ch t1) [] (d_dflt t1) [] in
          let t2 := set_dflt (set_ch t1 ch') flag' in
          let trg' := replace_nth i trg t2 in
          (trg', c1, sg1 ++ up, others_dflt i trg')
      | None =>
          (* not found: lyd_dup_single(src, RECURSIVE | WITH_FLAGS) (or the unlinked source itself) is inserted *)
          let trg' := insert_node sch trg src in
          let c2 := if first_inst then snd (dup_inst_next sch c1 src trg') else c1 in
          (trg', c2, (if d then [] else [SDel]), true)
      end
  end.

(* lyd_merge(): LY_LIST_FOR_SAFE(source) lyd_merge_sibling_r(target, NULL, &sibling_src, ..) with one cache *)
Fixpoint merge_list (sch : schema) (o : mopts) (srcs : forest) (trg : forest) (c : cache) : forest :=
  match srcs with
  | [] => trg
  | x :: r => let '(trg', c', _, _) := merge_sib sch o x trg c in merge_list sch o r trg' c'
  end.

(* lyd_merge_siblings(&target, source, options) *)
Definition merge (sch : schema) (o : mopts) (target source : forest) : forest :=
  merge_list sch o source target [].

(* lyd_merge_tree(): only the first source sibling *)
Definition merge_tree (sch : schema) (o : mopts) (target source : forest) : forest :=
  match source with [] => target | x :: _ => merge_list sch o [x] target [] end.

(* lyd_dup_siblings(.., LYD_DUP_RECURSIVE | LYD_DUP_WITH_FLAGS): an equal value. The model has no addresses, so it
   cannot say that the copy shares no memory with the original; that part of C14 rests on the sanitizer-backed
   oracle (editing / freeing either tree leaves the dump of the other unchanged). *)
Definition dup (f : forest) : forest := f.

(* LYD_DUP_NO_META *)
Fixpoint strip_meta (n : dnode) : dnode :=
  match n with DN s v d _ ch => DN s v d [] (map strip_meta ch) end.
Definition dup_no_meta (f : forest) : forest := map strip_meta f.
