(* Properties_C01_doc.v -- property C01 (print o parse = identity), document level, XML and JSON on the Tree subset:
   theorem statements only. Each is closed by [exact] of a lemma proved in XmlDocP.v / JsonDocP.v and followed by
   Print Assumptions.

   Reading guide. [xml_print sch t sel f] is the transcription of src/printer_xml.c (shrink mode, with siblings) on
   the forest f, [sel] the with-defaults node selection (lyd_node_should_print). [xml_parse sch t] is the reader of the
   libyang side: the XML element grammar with the model of libyang's own lexer (lyxml_parse_value) for character data
   and attribute values, then the schema-directed conversion (names and namespaces to schema nodes, attributes to
   metadata). A printed document carries no default flags, so what comes back is the forest with the flags cleared
   ([clear_dflt]); [prune sel f] is the part of f the selection keeps.
   Hypotheses: [tabs_okb] the side tables are well formed (identifiers as names and prefixes, namespaces of plain
   characters; two modules MAY share a prefix: since 91f0178 xml_print_meta() gives the second one a numbered prefix,
   modelled by [uniq_prefix]); [Canon] the forest is in the canonical form the library maintains (only used:
   every node is an instance of a known schema node under its schema parent, terms have no children);
   [DocN sch t lexable]: no anydata, terms hold strings of characters the lexer accepts (the hypothesis of
   C01_xml_text_roundtrip), inner nodes no value, metadata instances have distinct keys of listed modules and values of
   the same class. Both tables and data hypotheses have boolean checkers ([tabs_okb], [canonb], [docb .. lexableb]) that
   the correspondence run evaluates on every generated case. *)
From LY Require Import Base Utf8 XmlText XmlTextP Tree TreeP XmlDoc XmlDocP.
Local Open Scope N_scope.

(* XML, every node selected (report-all without tags): parse (print f) = f without its default flags *)
Theorem C01_xml_doc_roundtrip :
  forall sch t f,
    tabs_okb sch t = true -> Canon sch f -> Forall (DocN sch t lexable) f ->
    xml_parse sch t (xml_print_all sch t f) = Some (clear_dflt f).
Proof. exact xml_doc_roundtrip_proof. Qed.
Print Assumptions C01_xml_doc_roundtrip.

(* ... so a forest without default-flagged nodes comes back unchanged *)
Theorem C01_xml_doc_roundtrip_id :
  forall sch t f,
    tabs_okb sch t = true -> Canon sch f -> Forall (DocN sch t lexable) f -> forallb dflt_free_node f = true ->
    xml_parse sch t (xml_print_all sch t f) = Some f.
Proof.
  intros sch t f Ht HC HD Hf. rewrite (xml_doc_roundtrip_proof sch t f Ht HC HD), (clear_dflt_free f Hf). reflexivity.
Qed.
Print Assumptions C01_xml_doc_roundtrip_id.

(* XML, any node selection (explicit, trim, report-all, keep-empty-containers ...): exactly the selected part comes
   back, nothing else is lost or invented; for the explicit mode that is f minus its default-flagged subtrees (up to
   the config-false rule of lyd_node_should_print, WithDefaults.should_print) *)
Theorem C01_xml_doc_roundtrip_sel :
  forall sch t (sel : dnode -> bool) f,
    tabs_okb sch t = true -> Canon sch f -> Forall (DocN sch t lexable) f ->
    xml_parse sch t (xml_print sch t sel f) = Some (clear_dflt (prune sel f)).
Proof. exact xml_doc_roundtrip_sel_proof. Qed.
Print Assumptions C01_xml_doc_roundtrip_sel.

(* the same with the hypotheses as boolean checks *)
Theorem C01_xml_doc_roundtrip_checked :
  forall sch t (sel : dnode -> bool) f,
    tabs_okb sch t = true -> canonb sch None f = true -> forallb (docb sch t lexableb) f = true ->
    xml_parse sch t (xml_print sch t sel f) = Some (clear_dflt (prune sel f)).
Proof.
  intros sch t sel f Ht HC HD. apply xml_doc_roundtrip_sel_proof; [exact Ht|apply canonb_spec, HC|].
  apply (docb_forest sch t lexableb lexable f lexableb_spec lx_nil HD).
Qed.
Print Assumptions C01_xml_doc_roundtrip_checked.

(* non-vacuity: a container with a leaf holding markup characters and a CR, a list with two instances (key, leaf-list
   with an empty and a multi-byte value), metadata with TAB / LF / quote on a list instance and on a leaf-list
   instance, a default-flagged leaf. Hypotheses hold, and the statement computes. *)
Definition ex_sch : schema :=
  [(0, mk_sinfo (KCont false) None [] false true [] [] false 0 None OBytes);
   (1, mk_sinfo KLeaf (Some 0) [] false true [[100]] [] false 0 None OBytes);
   (2, mk_sinfo KList (Some 0) [3] true true [] [] false 0 None OBytes);
   (3, mk_sinfo KLeaf (Some 2) [] false true [] [] false 0 None OBytes);
   (4, mk_sinfo KLeafList (Some 2) [] true true [] [] false 0 None OBytes);
   (5, mk_sinfo KLeaf None [] false true [[120]] [] false 0 None OBytes)].
Definition ex_tabs : doctabs :=
  mk_doctabs [(0, (0, [99])); (1, (0, [108; 102])); (2, (0, [108])); (3, (0, [107])); (4, (0, [108; 108])); (5, (0, [122]))]
             [(0, mk_modinfo [109; 49] [109; 49] [117; 114; 110; 58; 109; 49]);
              (1, mk_modinfo [109; 50] [112; 50] [117; 114; 110; 58; 109; 50])].
Definition ex_forest : forest :=
  [DN 0 [] false []
      [DN 1 [97; 38; 60; 62; 13; 98] false [] [];
       DN 2 [] false [([109; 49; 58; 110; 111; 116; 101], [34; 9; 10; 39]); ([109; 50; 58; 116], [])]
          [DN 3 [49] false [] []; DN 4 [] false [] []; DN 4 [195; 169; 32] false [([109; 50; 58; 116], [120])] []];
       DN 2 [] false [] [DN 3 [50] false [] []]];
   DN 5 [120] true [] []].

Example C01_xml_doc_roundtrip_example :
  tabs_okb ex_sch ex_tabs = true /\ canonb ex_sch None ex_forest = true /\
  forallb (docb ex_sch ex_tabs lexableb) ex_forest = true /\
  xml_parse ex_sch ex_tabs (xml_print_all ex_sch ex_tabs ex_forest) = Some (clear_dflt ex_forest) /\
  xml_parse ex_sch ex_tabs (xml_print ex_sch ex_tabs (fun n => negb (d_dflt n)) ex_forest) =
    Some (clear_dflt (prune (fun n => negb (d_dflt n)) ex_forest)) /\
  length (prune (fun n => negb (d_dflt n)) ex_forest) = 1%nat.
Proof. vm_compute. repeat split. Qed.

(* ------------------------------------------------------------------------------------------- *)
(* JSON                                                                                          *)
(* ------------------------------------------------------------------------------------------- *)
From LY Require Import JsonText JsonDoc JsonDocP.

(* [json_print sch t jk sel f] is the transcription of src/printer_json.c (shrink mode, with siblings) WITH its state:
   level, level_printed, the set of open arrays, first_leaflist. [json_doc sch t jk f] is the compact rendering of the
   RFC 7951 value of the forest ([json_tree]: member names qualified where the module changes, contiguous (leaf-)list
   instances as arrays, int64 / uint64 / decimal64 / strings as strings, other numbers and booleans as literals, empty as
   [null], metadata objects per RFC 7952). [json_parse] is the reader of the libyang side: the RFC 8259 grammar with the
   model of lyjson_string() for strings, then the schema-directed conversion. Data hypotheses [JDocN .. SV_ly]: as for
   XML, with the value of a term constrained by its JSON class (strings: characters the lexer accepts; numbers: RFC 8259
   number tokens; booleans: true / false; empty: no value). [parents_ltb]: the sid of a node is larger than its parent's
   (pre-order numbering). *)

(* for every node selection the state machine of printer_json.c prints exactly the RFC 7951 rendering of the selected
   part (since f592167 also where the selection cuts through the instances of a leaf-list that carries metadata: trim
   mode; before, Properties_C12_doc.C12_json_trim_refuted held - its witness is now C12_json_trim_regression) *)
Theorem C01_json_print_is_rfc7951 :
  forall sch t jk (SV : bytes -> Prop) (sel : dnode -> bool) f,
    tabs_okb sch t = true -> parents_ltb sch = true -> Canon sch f -> Forall (JDocN sch t jk SV) f ->
    json_print sch t jk sel f = json_doc sch t jk (prune sel f).
Proof. exact json_print_sel_doc. Qed.
Print Assumptions C01_json_print_is_rfc7951.

(* JSON, every node selected: parse (print f) = f without its default flags *)
Theorem C01_json_doc_roundtrip :
  forall sch t jk f,
    tabs_okb sch t = true -> parents_ltb sch = true -> Canon sch f -> Forall (JDocN sch t jk SV_ly) f ->
    json_parse sch t jk (json_print_all sch t jk f) = Some (clear_dflt f).
Proof. exact json_print_roundtrip_proof. Qed.
Print Assumptions C01_json_doc_roundtrip.

(* JSON, any node selection (explicit, trim, report-all ...): exactly the selected part comes back *)
Theorem C01_json_doc_roundtrip_sel :
  forall sch t jk (sel : dnode -> bool) f,
    tabs_okb sch t = true -> parents_ltb sch = true -> Canon sch f -> Forall (JDocN sch t jk SV_ly) f ->
    json_parse sch t jk (json_print sch t jk sel f) = Some (clear_dflt (prune sel f)).
Proof. exact json_print_roundtrip_sel_proof. Qed.
Print Assumptions C01_json_doc_roundtrip_sel.

(* the hypotheses as boolean checks *)
Theorem C01_json_doc_roundtrip_checked :
  forall sch t jk (sel : dnode -> bool) f,
    tabs_okb sch t = true -> parents_ltb sch = true -> canonb sch None f = true -> forallb (jdocb sch t jk jlexb) f = true ->
    json_parse sch t jk (json_print sch t jk sel f) = Some (clear_dflt (prune sel f)).
Proof.
  intros sch t jk sel f Ht Hp HC HD. apply json_print_roundtrip_sel_proof; [exact Ht|exact Hp|apply canonb_spec, HC|].
  rewrite forallb_forall in HD. apply Forall_forall. intros x Hx. apply (jdocb_spec sch t jk jlexb SV_ly x jlexb_spec), HD, Hx.
Qed.
Print Assumptions C01_json_doc_roundtrip_checked.

(* non-vacuity: every JSON class (string with escapes and a multi-byte character, number, boolean, empty), a list with
   two instances, a leaf-list whose second instance carries metadata, metadata on a list instance and on a leaf; the state
   machine prints exactly the rendering on it *)
Definition exj_sch : schema :=
  [(0, mk_sinfo (KCont false) None [] false true [] [] false 0 None OBytes);
   (1, mk_sinfo KLeaf (Some 0) [] false true [] [] false 0 None OBytes);
   (2, mk_sinfo KList (Some 0) [3] true true [] [] false 0 None OInt);
   (3, mk_sinfo KLeaf (Some 2) [] false true [] [] false 0 None OInt);
   (4, mk_sinfo KLeafList (Some 2) [] true true [] [] false 0 None OBytes);
   (5, mk_sinfo KLeaf (Some 2) [] false true [] [] false 0 None OBool);
   (6, mk_sinfo KLeaf None [] false true [] [] false 0 None OBytes)].
Definition exj_tabs : doctabs :=
  mk_doctabs [(0, (0, [99])); (1, (0, [108; 102])); (2, (0, [108])); (3, (0, [107])); (4, (0, [108; 108])); (5, (0, [98])); (6, (0, [101]))]
             [(0, mk_modinfo [109; 49] [109; 49] [117; 114; 110; 58; 109; 49])].
Definition exj_kinds : list (sid * jkind) := [(1, JStr); (3, JNum); (4, JStr); (5, JBool); (6, JEmpty)].
Definition exj_forest : forest :=
  [DN 0 [] false []
      [DN 1 [97; 34; 92; 13; 9; 10; 98] false [([109; 49; 58; 110; 111; 116; 101], [120])] [];
       DN 2 [] false [([109; 49; 58; 110; 111; 116; 101], [34; 9])]
          [DN 3 [45; 49; 50] false [] []; DN 4 [] false [] []; DN 4 [195; 169] false [([109; 49; 58; 110; 111; 116; 101], [])] [];
           DN 5 [116; 114; 117; 101] false [] []];
       DN 2 [] false [] [DN 3 [55] false [] []]];
   DN 6 [] false [] []].

Example C01_json_doc_roundtrip_example :
  tabs_okb exj_sch exj_tabs = true /\ canonb exj_sch None exj_forest = true /\
  forallb (jdocb exj_sch exj_tabs exj_kinds jlexb) exj_forest = true /\ parents_ltb exj_sch = true /\
  json_print_all exj_sch exj_tabs exj_kinds exj_forest = json_doc exj_sch exj_tabs exj_kinds exj_forest /\
  json_parse exj_sch exj_tabs exj_kinds (json_print_all exj_sch exj_tabs exj_kinds exj_forest) = Some (clear_dflt exj_forest) /\
  (* a selection that drops the first leaf-list instance and the whole second list instance *)
  (let sel := fun n => negb (beq_bytes (d_val n) []) || negb (isnil (d_ch n)) && negb (beq_bytes (d_val (hd n (d_ch n))) [55]) in
   json_parse exj_sch exj_tabs exj_kinds (json_print exj_sch exj_tabs exj_kinds sel exj_forest) = Some (clear_dflt (prune sel exj_forest)) /\
   length (prune sel exj_forest) = 1%nat).
Proof. vm_compute. repeat split. Qed.
