(* Extract.v — extraction of the executable models to OCaml (ExtrOcamlBasic only:
   bool, option, unit, list, prod, sumbool, sumor mapped to OCaml's; N/Z/positive/nat stay
   the extracted inductive types). The file model_<slice>.ml is written into this directory; tools/vlib.py build_model
   concatenates it with ocaml/helpers.ml and ocaml/run_<slice>.ml and compiles ocaml/modelrun_<slice>.
   Every Extract_<slice>.v must extract N.add N.mul N.div N.modulo N.sub and the Z functions below
   (used by helpers.ml). *)
From Coq Require Extraction ExtrOcamlBasic.
From LY Require Import Base Utf8 XmlText.
Extraction Language OCaml.
Extraction "model_xml.ml"
  N.add N.mul N.div N.modulo N.sub Z.add Z.mul Z.opp Z.of_N Z.abs_N Z.sub Z.ltb
  Utf8.getutf8 Utf8.pututf8 Utf8.checkutf8 Utf8.all_getutf8 Utf8.all_checkutf8
  XmlText.xml_esc XmlText.xml_value.
