(* JsonNum.v — model of the JSON number lexer of src/json.c:
     lyjson_count_in_row(), lyjson_number_is_zero(), lyjson_get_buffer_for_number(),
     lyjson_exp_number_copy_num_part(), lyjson_exp_number(), lyjson_number(),
   and ly_strnchr() (src/ly_common.c), strtoll() (as used on the exponent).

   Index style (DESIGN section 3, style B). The input is the NUL-terminated text at
   jsonctx->in->current: a list [s] without NUL; its extent is [length s + 1] bytes and every read
   goes through [rdin], which answers [JOob] outside it. The buffer that lyjson_exp_number()
   allocates is a list of [option N] cells ([None] = not yet written) whose length is the size passed
   to malloc(); every store goes through [wrb] / [fillb], which answer [JOob] outside it.
   [JOob] is also the answer when one of the assert()s of these functions would fire (the
   verification builds keep assertions enabled, so a failed assertion is an abort).

   C integer variables carry their width where a conversion happens:
     uint16_t num_len (exponent - num, num_len -= ..., num_len--)           [u16]
     int32_t dp_position, dec_point_idx ((int32_t) of a long long / ptrdiff) [i32]
     uint32_t i, the value of lyjson_count_in_row(), (uint32_t)(end - in)    [u32]
     uint64_t buf_len, num_len + 1 in lyjson_get_buffer_for_number,
              the size_t arguments of memset()/malloc()                      [u64]
     long long e_val = strtoll(): saturates and sets errno outside int64.
   Pointers into the input are [Z] offsets from [in]. A pointer VALUE may leave the object without
   being dereferenced (num + dp_position - 1 in the first lyjson_count_in_row() call can be up to
   131070 bytes past the end of the text, and that function computes str - 1, which is in - 1 when
   the number has neither sign nor leading zero): by the letter of C11 6.5.6p8 forming such a pointer
   is already undefined; on a flat address space it is a plain integer comparison. The model checks
   dereferences only and this remark is the obligation that is NOT covered.

   The model is what the code DOES, as of /repo commit 63186d2. Before that commit the second layout branch (leading
   `0.` and the new decimal point inside the digits) took the position of the new decimal point relative to the digits
   BEFORE the useless leading zeros were dropped and did not count the byte of the decimal point in buf_len:
     0.5E1 -> `.`    0.55E1 -> `.5`    0.055E2 -> `5.`    0.0055E3 -> `55`    0.123456E3 -> `12.345`
   (inside the allocation, the terminating NUL overwrote the last byte written). These inputs are kept as regression
   examples in Properties_C05_jsonnum.v. *)
From LY Require Import Base.
Local Open Scope Z_scope.

(* ---------------------------------------------------------------------------------------------- *)
Inductive jres (A : Type) : Type :=
| JOk (a : A)
| JErr (e : N)
| JOob.
Arguments JOk {A} a.
Arguments JErr {A} e.
Arguments JOob {A}.

Definition jbind {A B} (r : jres A) (f : A -> jres B) : jres B :=
  match r with JOk a => f a | JErr e => JErr e | JOob => JOob end.
Notation "'let*' x ':=' a 'in' b" := (jbind a (fun x => b))
  (at level 200, x pattern, a at level 100, b at level 200, right associativity).

Definition E_CHAR : N := 1.      (* invalid character / unexpected end of input       LY_EVALID (LYVE_SYNTAX)    *)
Definition E_LONG : N := 2.      (* JSON number is too long (exponent - in > 65535)   LY_EVALID (LYVE_SEMANTICS) *)
Definition E_EXP : N := 3.       (* exponent out of bounds                            LY_EVALID (LYVE_SEMANTICS) *)
Definition E_MAXLEN : N := 4.    (* exceeded the LY_NUMBER_MAXLEN limit               LY_EVALID (LYVE_SEMANTICS) *)
Definition E_FUEL : N := 99.     (* model artefact, excluded by the theorems *)

Definition LY_NUMBER_MAXLEN : Z := 22.     (* src/ly_common.h *)

(* ---------- C integer conversions ---------- *)
Definition u16 (x : Z) : Z := x mod 65536.
Definition u32 (x : Z) : Z := x mod 4294967296.
Definition u64 (x : Z) : Z := x mod 18446744073709551616.
Definition i32 (x : Z) : Z := (x + 2147483648) mod 4294967296 - 2147483648.
Definition INT32_MAX : Z := 2147483647.
Definition LLONG_MAX : Z := 9223372036854775807.
Definition LLONG_MIN : Z := -9223372036854775808.
Definition UINT16_MAX : Z := 65535.

(* ---------- the input text ---------- *)
(* in[i]: offsets 0 .. length s are readable, in[length s] = 0 *)
Definition rdin (s : bytes) (i : Z) : jres N :=
  if (0 <=? i) && (i <=? Z.of_nat (length s)) then JOk (nth (Z.to_nat i) s 0%N) else JOob.

(* a C string ends at its first NUL *)
Fixpoint cstr (s : bytes) : bytes :=
  match s with
  | [] => []
  | c :: r => if (c =? 0)%N then [] else c :: cstr r
  end.

(* while (isdigit(in[offset])) ++offset;   (isdigit() of a byte >= 0x80 is false in every locale glibc has) *)
Fixpoint skip_digits (fuel : nat) (s : bytes) (off : Z) : jres Z :=
  match fuel with
  | O => JErr E_FUEL
  | S f => let* c := rdin s off in if is_digit c then skip_digits f s (off + 1) else JOk off
  end.

(* ---------- lyjson_count_in_row(str, end, c, backwards); [n] = end - str when str < end ---------- *)
(* for (cnt = 0; str != end and str[0] == c; ++str, ++cnt) {} *)
Fixpoint count_fwd (n : nat) (s : bytes) (str : Z) (c : N) : jres Z :=
  match n with
  | O => JOk 0
  | S n' => let* b := rdin s str in
            if (b =? c)%N then let* k := count_fwd n' s (str + 1) c in JOk (k + 1) else JOk 0
  end.

(* --end; --str; for (cnt = 0; str != end and end[0] == c; --end, ++cnt) {}   ([e] = end) *)
Fixpoint count_bwd (n : nat) (s : bytes) (e : Z) (c : N) : jres Z :=
  match n with
  | O => JOk 0
  | S n' => let* b := rdin s (e - 1) in
            if (b =? c)%N then let* k := count_bwd n' s (e - 1) c in JOk (k + 1) else JOk 0
  end.

Definition count_in_row (s : bytes) (str e : Z) (c : N) (backwards : bool) : jres Z :=
  if e <=? str then JOk 0                                        (* if (str >= end) return 0; *)
  else
    let n := Z.to_nat (e - str) in
    let* k := if backwards then count_bwd n s e c else count_fwd n s str c in
    JOk (u32 k).                                                  (* uint32_t cnt *)

(* ---------- lyjson_number_is_zero(in, end) ---------- *)
Definition number_is_zero (s : bytes) (i e : Z) : jres bool :=
  if negb (i <? e) then JOob else                                 (* assert(in < end) *)
  let* c := rdin s i in
  let* i1 := if (c =? 45)%N || (c =? 43)%N
             then (if negb (i + 1 <? e) then JOob else JOk (i + 1))   (* in++; assert(in < end) *)
             else JOk i in
  let* c0 := rdin s i1 in
  let* dot := if (c0 =? 48)%N then (let* c1 := rdin s (i1 + 1) in JOk (c1 =? 46)%N) else JOk false in
  let i2 := if dot then i1 + 2 else i1 in
  if dot && negb (i2 <? e) then JOk true else
  let* k := count_in_row s i2 e 48%N false in
  JOk (k =? u32 (e - i2)).

(* ---------- ly_strnchr(num, '.', num_len): offset of the first '.', if any ---------- *)
Fixpoint strnchr (n : nat) (s : bytes) (p : Z) (c : N) : jres (option Z) :=
  match n with
  | O => JOk None
  | S n' => let* b := rdin s p in if (b =? c)%N then JOk (Some p) else strnchr n' s (p + 1) c
  end.

(* ---------- strtoll(exponent + 1, NULL, 10) on  [+-]? digit* ---------- *)
Fixpoint acc_digits (fuel : nat) (s : bytes) (i : Z) (acc : Z) : jres Z :=
  match fuel with
  | O => JErr E_FUEL
  | S f => let* c := rdin s i in
           if is_digit c then acc_digits f s (i + 1) (10 * acc + (Z.of_N c - 48)) else JOk acc
  end.

(* value and errno != 0 *)
Definition strtoll (s : bytes) (i : Z) : jres (Z * bool) :=
  let* c := rdin s i in
  let neg := (c =? 45)%N in
  let i1 := if (c =? 45)%N || (c =? 43)%N then i + 1 else i in
  let* a := acc_digits (S (length s)) s i1 0 in
  let v := if neg then - a else a in
  if LLONG_MAX <? v then JOk (LLONG_MAX, true)
  else if v <? LLONG_MIN then JOk (LLONG_MIN, true)
  else JOk (v, false).

(* ---------- the allocated buffer ---------- *)
Definition cell := option N.
Definition buffer := list cell.

Fixpoint upd (b : buffer) (i : nat) (v : N) : buffer :=
  match b, i with
  | [], _ => []
  | _ :: t, O => Some v :: t
  | x :: t, S k => x :: upd t k v
  end.

(* buf[i] = v *)
Definition wrb (b : buffer) (i : Z) (v : N) : jres buffer :=
  if (0 <=? i) && (i <? Z.of_nat (length b)) then JOk (upd b (Z.to_nat i) v) else JOob.

(* memset(buf + i, v, n) with n already converted to size_t *)
Fixpoint fill (b : buffer) (i : nat) (n : nat) (v : N) : buffer :=
  match n with
  | O => b
  | S n' => fill (upd b i v) (S i) n' v
  end.
Definition fillb (b : buffer) (i n : Z) (v : N) : jres buffer :=
  if n =? 0 then JOk b
  else if (0 <=? i) && (i + n <=? Z.of_nat (length b)) then JOk (fill b (Z.to_nat i) (Z.to_nat n) v) else JOob.

(* lyjson_get_buffer_for_number(ctx, num_len, &buffer): (num_len + 1) is computed in uint64_t *)
Definition get_buffer (num_len : Z) : jres buffer :=
  if LY_NUMBER_MAXLEN <? u64 (num_len + 1) then JErr E_MAXLEN
  else JOk (repeat None (Z.to_nat (u64 (num_len + 1)))).

(* ---------- lyjson_exp_number_copy_num_part(num, num_len, dec_point, dp_position, dst) ---------- *)
(* dst = buf + base; the loop  for (n = 0, d = 0; (uint32_t)n < num_len; n++)  runs [cnt] more times *)
Fixpoint copy_loop (cnt : nat) (s : bytes) (num : Z) (dec_idx dp : Z) (b : buffer) (base : Z) (n d : Z)
  : jres (buffer * Z) :=
  match cnt with
  | O => JOk (b, d)
  | S cnt' =>
      if n =? dec_idx then copy_loop cnt' s num dec_idx dp b base (n + 1) d
      else
        let* c := rdin s (num + n) in
        if d =? dp then
          let* b1 := wrb b (base + d) 46%N in
          let* b2 := wrb b1 (base + d + 1) c in
          copy_loop cnt' s num dec_idx dp b2 base (n + 1) (d + 2)
        else
          let* b1 := wrb b (base + d) c in
          copy_loop cnt' s num dec_idx dp b1 base (n + 1) (d + 1)
  end.

Definition copy_num_part (s : bytes) (num : Z) (num_len : Z) (dec_point : option Z) (dp : Z) (b : buffer) (base : Z)
  : jres (buffer * Z) :=
  let dec_idx := match dec_point with Some p => i32 (p - num) | None => INT32_MAX end in
  if negb ((0 <=? dec_idx) && negb (dec_idx =? dp)) then JOob else      (* assert *)
  let* (b', d) := copy_loop (Z.to_nat (u32 num_len)) s num dec_idx dp b base 0 0 in
  JOk (b', u32 d).

(* ---------- lyjson_exp_number(ctx, in, exponent, total_len, &res, &res_len) ---------- *)
Record expres := {
  x_buf : buffer;        (* the allocated block after the terminating NUL was stored *)
  x_len : Z;             (* buf_len = *res_len *)
  x_end : Z;             (* index one past the last byte stored BEFORE the terminating NUL *)
  x_branch : N           (* which of the five layouts was taken (1..5) *)
}.

Definition maybe_minus (b : buffer) (minus : Z) : jres (buffer * Z) :=
  if minus =? 1 then let* b1 := wrb b 0 45%N in JOk (b1, 1) else JOk (b, 0).

Definition finish (b : buffer) (buf_len wend : Z) (br : N) : jres expres :=
  let* b1 := wrb b buf_len 0%N in                                       (* buf[buf_len] = 0 *)
  JOk {| x_buf := b1; x_len := buf_len; x_end := wend; x_branch := br |}.

Definition exp_number (s : bytes) (ex total_len : Z) : jres expres :=
  if negb (2 <? total_len) then JOob else                              (* assert(total_len > 2) *)
  let* ce := rdin s ex in
  if negb ((0 <? ex) && ((ce =? 101)%N || (ce =? 69)%N)) then JOob else   (* assert(in < exponent and exponent[0] is e/E) *)
  if UINT16_MAX <? ex then JErr E_LONG else
  let* (e_val, errno) := strtoll s (ex + 1) in
  if errno || (UINT16_MAX <? e_val) || (e_val <? - UINT16_MAX) then JErr E_EXP else
  let* c0 := rdin s 0 in
  let minus := if (c0 =? 45)%N then 1 else 0 in
  let* cm := rdin s minus in
  let* lz := if (cm =? 48)%N
             then (let* c1 := rdin s (minus + 1) in if (c1 =? 46)%N then JOk true else JOob)   (* assert *)
             else JOk false in
  let num := if lz then minus + 1 else minus in
  let num_len := u16 (ex - num) in
  let* dec_point := strnchr (Z.to_nat num_len) s num 46%N in
  let dp := i32 (match dec_point with Some p => p - num + e_val | None => num_len + e_val end) in
  let* cnt := if 0 <? dp then count_in_row s (num + dp - 1) ex 48%N true
              else count_in_row s num ex 48%N true in
  let num_len := u16 (num_len - cnt) in
  let dot := match dec_point with
             | Some _ => if i32 (num_len - 1) =? dp then -1 else 0
             | None => 1
             end in
  if dp <=? 0 then
    (* 1: 0.000ddd *)
    let zeros := Z.abs dp in
    let buf_len := u64 (minus + 1 + dot + zeros + num_len) in
    let* b := get_buffer buf_len in
    let* (b, i) := maybe_minus b minus in
    let* b := wrb b i 48%N in
    let* b := wrb b (i + 1) 46%N in
    let* b := fillb b (i + 2) (u64 zeros) 48%N in
    let i := u32 (i + 2 + zeros) in
    let* (b, d) := copy_num_part s num num_len dec_point (-1) b i in
    finish b buf_len (i + d) 1
  else if lz && (dp <? num_len) then
    (* 2: 0.ddd with the new decimal point inside the digits *)
    let num := num + 1 in
    let num_len := u16 (num_len - 1) in
    let dp := i32 (dp - 1) in
    let* zeros := count_in_row s num (num + dp + 1) 48%N false in
    let allz := zeros =? dp + 1 in
    (* since /repo 63186d2: otherwise the new decimal point goes behind the dp + 1 - zeros digits that are left before
       it once the zeros are dropped, and its byte is counted when digits follow it *)
    let dp := if allz then 1 else i32 (dp + 1 - zeros) in
    let zeros := if allz then zeros - 1 else zeros in
    let dot := if allz then 1 else (if dp <? num_len - zeros then 1 else 0) in
    let buf_len := u64 (minus + dot + (num_len - zeros)) in
    let* b := get_buffer buf_len in
    let* (b, i) := maybe_minus b minus in
    let* (b, d) := copy_num_part s (num + zeros) (num_len - zeros) None dp b i in
    finish b buf_len (i + d) 2
  else if dp <? num_len then
    (* 3: the decimal point moves inside the digits *)
    let buf_len := u64 (minus + dot + num_len) in
    let* b := get_buffer buf_len in
    let* (b, i) := maybe_minus b minus in
    let* (b, d) := copy_num_part s num num_len dec_point dp b i in
    finish b buf_len (i + d) 3
  else if lz then
    (* 4: 0.ddd becomes an integer *)
    let num := num + 1 in
    let num_len := u16 (num_len - 1) in
    let* zeros := count_in_row s num (num + num_len) 48%N false in
    let buf_len := u64 (minus + dp - zeros) in
    let* b := get_buffer buf_len in
    let* (b, i) := maybe_minus b minus in
    let* (b, d) := copy_num_part s (num + zeros) (num_len - zeros) None dp b i in
    let i := u32 (i + d) in
    let* b := fillb b i (u64 (buf_len - i)) 48%N in
    finish b buf_len (i + u64 (buf_len - i)) 4
  else
    (* 5: ddd or d.dd becomes an integer *)
    let buf_len := u64 (minus + dp) in
    let* b := get_buffer buf_len in
    let* (b, i) := maybe_minus b minus in
    let* (b, d) := copy_num_part s num num_len dec_point dp b i in
    let i := u32 (i + d) in
    let* b := fillb b i (u64 (buf_len - i)) 48%N in
    finish b buf_len (i + u64 (buf_len - i)) 5.

(* ---------- lyjson_number(jsonctx) ---------- *)
Record numres := {
  n_value : list cell;   (* jsonctx->value[0 .. value_len) *)
  n_consumed : Z;        (* bytes skipped by ly_in_skip() *)
  n_dynamic : bool;      (* value is the block allocated by lyjson_exp_number() *)
  n_exp : option expres  (* details of that block, for the theorems *)
}.

Definition slice (s : bytes) (from len : Z) : list cell :=
  map Some (firstn (Z.to_nat len) (skipn (Z.to_nat from) s)).

(* the scanning part of lyjson_number(): offsets of the end of the integer part, of the fraction, of the
   exponent letter (if any) and of the end of the number *)
Record lexed := { l_minus : Z; l_o1 : Z; l_o2 : Z; l_exp : option Z; l_off : Z }.

Definition lex_number (s : bytes) : jres lexed :=
  let fuel := S (length s) in
  let* c0 := rdin s 0 in
  let minus := if (c0 =? 45)%N then 1 else 0 in
  let* c := rdin s minus in
  let* o1 := if (c =? 48)%N then JOk (minus + 1)
             else if is_digit c then skip_digits fuel s (minus + 1)
             else JErr E_CHAR in
  let* c := rdin s o1 in
  let* o2 := if (c =? 46)%N
             then (let* d := rdin s (o1 + 1) in
                   if is_digit d then skip_digits fuel s (o1 + 1) else JErr E_CHAR)
             else JOk o1 in
  let* c := rdin s o2 in
  if (c =? 101)%N || (c =? 69)%N then
    let* c1 := rdin s (o2 + 1) in
    let o := if (c1 =? 43)%N || (c1 =? 45)%N then o2 + 2 else o2 + 1 in
    let* d := rdin s o in
    if is_digit d then (let* o' := skip_digits fuel s o in
                        JOk {| l_minus := minus; l_o1 := o1; l_o2 := o2; l_exp := Some o2; l_off := o' |})
    else JErr E_CHAR
  else JOk {| l_minus := minus; l_o1 := o1; l_o2 := o2; l_exp := None; l_off := o2 |}.

(* the part of lyjson_number() after the scan: which text becomes jsonctx->value *)
Definition number_post (s : bytes) (lx : lexed) : jres numres :=
  let minus := l_minus lx in
  let off := l_off lx in
  let* z := number_is_zero s 0 (match l_exp lx with Some e => e | None => off end) in
  if z then JOk {| n_value := slice s 0 (minus + 1); n_consumed := off; n_dynamic := false; n_exp := None |}
  else
    match l_exp lx with
    | Some ex =>
        let* ze := number_is_zero s (ex + 1) off in
        if ze then JOk {| n_value := slice s 0 ex; n_consumed := off; n_dynamic := false; n_exp := None |}
        else
          let* x := exp_number s ex off in
          JOk {| n_value := firstn (Z.to_nat (x_len x)) (x_buf x); n_consumed := off; n_dynamic := true;
                 n_exp := Some x |}
    | None =>
        if LY_NUMBER_MAXLEN <? off then JErr E_MAXLEN
        else JOk {| n_value := slice s 0 off; n_consumed := off; n_dynamic := false; n_exp := None |}
    end.

Definition number (s : bytes) : jres numres :=
  let* lx := lex_number s in number_post s lx.

(* entry point used by the correspondence: the text is cut at its first NUL as the C string is *)
Definition number_c (s : bytes) : jres numres := number (cstr s).

(* ---------------------------------------------------------------------------------------------- *)
(* Specification side: what a decimal text denotes. A value is a pair (m, e) standing for m * 10^e. *)

Fixpoint digits_val (s : bytes) (acc : Z) : option Z :=
  match s with
  | [] => Some acc
  | c :: r => if is_digit c then digits_val r (10 * acc + (Z.of_N c - 48)) else None
  end.

Fixpoint split_at (c : N) (s : bytes) : bytes * option bytes :=
  match s with
  | [] => ([], None)
  | x :: r => if (x =? c)%N then ([], Some r)
              else let (a, b) := split_at c r in (x :: a, b)
  end.

(* plain decimal  -?digits[.digits]  with at least one digit before and, when there is a point, after it
   (the lexical form of YANG decimal64 / integers and of a JSON number without exponent) *)
Definition dec_denote (s : bytes) : option (Z * Z) :=
  let (neg, body) := match s with 45%N :: r => (true, r) | _ => (false, s) end in
  let (ip, fp) := split_at 46%N body in
  match ip, fp with
  | [], _ => None
  | _, Some [] => None
  | _, _ =>
      let fr := match fp with Some f => f | None => [] end in
      match digits_val (ip ++ fr) 0 with
      | Some m => Some (if neg then - m else m, - Z.of_nat (length fr))
      | None => None
      end
  end.

(* JSON number  mantissa [eE] [+-]? digits *)
Definition split_exp (s : bytes) : bytes * option bytes :=
  let (a, b) := split_at 101%N s in
  match b with
  | Some _ => (a, b)
  | None => split_at 69%N s
  end.

Definition json_denote (s : bytes) : option (Z * Z) :=
  let (m, e) := split_exp s in
  match dec_denote m, e with
  | Some (mv, me), None => Some (mv, me)
  | Some (mv, me), Some ex =>
      let (neg, body) := match ex with
                         | 45%N :: r => (true, r)
                         | 43%N :: r => (false, r)
                         | _ => (false, ex)
                         end in
      match body with
      | [] => None
      | _ => match digits_val body 0 with
             | Some ev => Some (mv, me + (if neg then - ev else ev))
             | None => None
             end
      end
  | None, _ => None
  end.

(* m1 * 10^e1 = m2 * 10^e2 *)
Definition same_value (a b : Z * Z) : bool :=
  let (m1, e1) := a in
  let (m2, e2) := b in
  let e := Z.min e1 e2 in
  (m1 * 10 ^ (e1 - e) =? m2 * 10 ^ (e2 - e)).

Definition all_init (v : list cell) : bool := forallb (fun c => match c with Some _ => true | None => false end) v.
Definition cells_bytes (v : list cell) : bytes := map (fun c => match c with Some b => b | None => 0%N end) v.

(* the accepted text (the first n_consumed bytes) and the produced text denote the same number *)
Definition denotes_ok (s : bytes) (r : numres) : bool :=
  all_init (n_value r) &&
  match json_denote (firstn (Z.to_nat (n_consumed r)) s), dec_denote (cells_bytes (n_value r)) with
  | Some a, Some b => same_value a b
  | _, _ => false
  end.
