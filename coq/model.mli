
val negb : bool -> bool

type nat =
| O
| S of nat

val fst : ('a1 * 'a2) -> 'a1

val snd : ('a1 * 'a2) -> 'a2

val length : 'a1 list -> nat

val app : 'a1 list -> 'a1 list -> 'a1 list

type comparison =
| Eq
| Lt
| Gt

module Nat :
 sig
  val leb : nat -> nat -> bool

  val ltb : nat -> nat -> bool
 end

val nth : nat -> 'a1 list -> 'a1 -> 'a1

val rev : 'a1 list -> 'a1 list

val flat_map : ('a1 -> 'a2 list) -> 'a1 list -> 'a2 list

val forallb : ('a1 -> bool) -> 'a1 list -> bool

val firstn : nat -> 'a1 list -> 'a1 list

val skipn : nat -> 'a1 list -> 'a1 list

type positive =
| XI of positive
| XO of positive
| XH

type n =
| N0
| Npos of positive

type z =
| Z0
| Zpos of positive
| Zneg of positive

module Pos :
 sig
  type mask =
  | IsNul
  | IsPos of positive
  | IsNeg
 end

module Coq_Pos :
 sig
  val succ : positive -> positive

  val add : positive -> positive -> positive

  val add_carry : positive -> positive -> positive

  val pred_double : positive -> positive

  type mask = Pos.mask =
  | IsNul
  | IsPos of positive
  | IsNeg

  val succ_double_mask : mask -> mask

  val double_mask : mask -> mask

  val double_pred_mask : positive -> mask

  val sub_mask : positive -> positive -> mask

  val sub_mask_carry : positive -> positive -> mask

  val mul : positive -> positive -> positive

  val iter : ('a1 -> 'a1) -> 'a1 -> positive -> 'a1

  val compare_cont : comparison -> positive -> positive -> comparison

  val compare : positive -> positive -> comparison

  val eqb : positive -> positive -> bool

  val coq_Nsucc_double : n -> n

  val coq_Ndouble : n -> n

  val coq_lor : positive -> positive -> positive

  val coq_land : positive -> positive -> n

  val shiftl : positive -> n -> positive
 end

module N :
 sig
  val succ_double : n -> n

  val double : n -> n

  val add : n -> n -> n

  val sub : n -> n -> n

  val mul : n -> n -> n

  val compare : n -> n -> comparison

  val eqb : n -> n -> bool

  val leb : n -> n -> bool

  val ltb : n -> n -> bool

  val div2 : n -> n

  val pos_div_eucl : positive -> n -> n * n

  val div_eucl : n -> n -> n * n

  val div : n -> n -> n

  val modulo : n -> n -> n

  val coq_lor : n -> n -> n

  val coq_land : n -> n -> n

  val shiftl : n -> n -> n

  val shiftr : n -> n -> n
 end

module Z :
 sig
  val double : z -> z

  val succ_double : z -> z

  val pred_double : z -> z

  val pos_sub : positive -> positive -> z

  val add : z -> z -> z

  val opp : z -> z

  val sub : z -> z -> z

  val mul : z -> z -> z

  val abs_N : z -> n

  val of_N : n -> z
 end

type bytes = n list

type 'a res =
| Ok of 'a
| Err of n

val starts_with : bytes -> bytes -> bool

val is_digit : n -> bool

val is_xdigit : n -> bool

val is_xmlws : n -> bool

val rd0 : bytes -> nat -> n

val is_cont : n -> bool

val getutf8 : bytes -> (n * nat) option

val pututf8 : n -> bytes option

val lex_lt : bytes -> bytes -> bool

val lex_gt : bytes -> bytes -> bool

val and_eq : bytes -> bytes -> bytes -> bool

val checkutf8 : bytes -> nat option

val all_getutf8_f : nat -> bytes -> bool

val all_getutf8 : bytes -> bool

val all_checkutf8_f : nat -> bytes -> bool

val all_checkutf8 : bytes -> bool

val xml_esc_table : ((n * bool) * n list) list

val esc_lookup : ((n * bool) * bytes) list -> bool -> n -> bytes

val xml_esc_byte : bool -> n -> bytes

val xml_esc : bool -> bytes -> bytes

val e_EOF : n

val e_ENTITY : n

val e_CHARREF : n

val e_EXPSEMI : n

val e_CHARVAL : n

val e_CDATA : n

val e_INCHAR : n

val e_FUEL : n

val u32 : n

val scan_dec : bytes -> n -> n * bytes

val hexval : n -> n

val scan_hex : bytes -> n -> n * bytes

val find_cdata_end : bytes -> bytes -> (bytes * bytes) option

val cdata_hdr : bytes

val xml_value_f :
  nat -> n -> bytes -> bytes -> bool -> ((bytes * bytes) * bool) res

val xml_value : n -> bytes -> ((bytes * bytes) * bool) res
