(* Properties_C13_difftree.v -- property C13 (diffs can be reversed and composed) at TREE level for everything that is not
   user-ordered: leaves, containers, choices/cases, system-ordered lists and leaf-lists at any depth, default flags
   included.  Theorem statements only; models: DiffTree.v (diff, apply), DiffRev.v (lyd_diff_reverse_all), DiffMerge.v
   (lyd_diff_merge_all), tied to src/diff.c by the correspondence run tools/props/comps_difftree.py (same reversed and
   merged diff trees, same patched trees as libyang).  User-ordered lists: Properties_C13_uord.v.
   [wfb] : see Properties_C06_difftree.v. *)
From LY Require Import Base Tree TreeP DiffTree DiffTreeP DiffRev DiffRevP DiffMerge DiffMergeP.
Local Open Scope N_scope.

(* Reversing diff(A,B) succeeds and gives a diff that, applied to B, succeeds and yields A exactly (every node, value,
   order and default flag). *)
Theorem C13_reverse_apply :
  forall sch fa fb, wfb sch fa = true -> wfb sch fb = true ->
  exists ds rs, diff sch true fa fb = Ok ds /\ reverse sch ds = Ok rs /\ apply sch rs fb = Ok fa.
Proof. exact reverse_apply. Qed.
Print Assumptions C13_reverse_apply.

(* Reversal keeps the MEANING of a diff with the roles of the two trees exchanged, for every diff that describes the
   change from fa to fb (not only for the ones lyd_diff_siblings produces), whatever the order of its siblings. *)
Theorem C13_reverse_meaning :
  forall sch ds fa fb,
  LevelSp sch (Sp sch None) ds fa fb -> (forall d, In d ds -> is_key sch (dd_sid d) = false) ->
  exists rs, reverse sch ds = Ok rs /\ LevelSp sch (Sp sch None) rs fb fa.
Proof.
  intros sch ds fa fb H Hk. destruct (reverse_sp sch ds fa fb H Hk) as [rs [E [Hs _]]]. exists rs. split; assumption.
Qed.
Print Assumptions C13_reverse_meaning.

(* reverse (reverse d) = d as diff TREES is false: the default flag of a duplicated parent (a node with operation none
   that only leads to a change) can be lost - lyd_diff_reverse_value() runs lyd_change_term() on a default leaf, whose
   lyd_np_cont_dflt_del() walk clears the flag of the parents in the diff tree.  That flag is never read by
   lyd_diff_apply_all(), so the meaning is not affected (next theorem). *)
Theorem C13_reverse_involutive_refuted :
  exists sch fa fb, wfb sch fa = true /\ wfb sch fb = true /\
  exists d r r2, diff sch true fa fb = Ok d /\ reverse sch d = Ok r /\ reverse sch r = Ok r2 /\ r2 <> d.
Proof. exists w_sch, r_A, r_B. exact reverse_twice_witness. Qed.
Print Assumptions C13_reverse_involutive_refuted.

(* What holds: reversing twice succeeds and gives a diff with the meaning of the original one - applied to A it
   yields B exactly.  Missing for syntactic involution: the default flag of inner diff nodes with operation none. *)
Theorem C13_reverse_involutive_partial :
  forall sch fa fb, wfb sch fa = true -> wfb sch fb = true ->
  exists ds rs rs2, diff sch true fa fb = Ok ds /\ reverse sch ds = Ok rs /\ reverse sch rs = Ok rs2 /\
                    apply sch rs2 fa = Ok fb.
Proof. exact reverse_twice_apply. Qed.
Print Assumptions C13_reverse_involutive_partial.

(* Regression case of the former finding merge-npcont-dflt (libyang fix 2dd55cd, model updated with it): diff(A,B)
   creates a subtree with a non-presence container, diff(B,C) only turns the leaf below it into a default node;
   lyd_diff_merge_dflt_flag() now also sets the default flag of the created container and the merged diff applied to A
   gives C exactly. *)
Example C13_merge_apply_regression :
  wfb w_sch w_A = true /\ wfb w_sch w_B = true /\ wfb w_sch w_C = true /\
  exists d1 d2 m, diff w_sch true w_A w_B = Ok d1 /\ diff w_sch true w_B w_C = Ok d2 /\
                  merge w_sch false (map redup d1) d2 = Ok m /\ apply w_sch m w_A = Ok w_C.
Proof. exact merge_apply_regression. Qed.

(* the hypotheses of the reverse theorems are satisfiable by a non-trivial pair (the example of C06) *)
Example C13_reverse_example :
  let sch := w_sch in
  wfb sch r_A = true /\ wfb sch r_B = true /\
  match diff sch true r_A r_B with
  | Ok ds => match reverse sch ds with
             | Ok rs => apply sch rs r_B = Ok r_A /\ apply sch ds r_A = Ok r_B
             | Err _ => False
             end
  | Err _ => False
  end.
Proof. vm_compute. repeat split; reflexivity. Qed.

(* Merging in the change that undoes an earlier one removes it: for well-formed A, B over ANY schema (the former
   hypothesis that the schema has no user-ordered list at all is gone: a well-formed tree holds no instance of one,
   wf_node, and that is all the merge model asks - the schema may declare user-ordered lists that the data do not use),
   merging diff(B,A) into (a copy of) diff(A,B) gives the EMPTY diff, with either merge option - every cell
   of the merge table that an undo meets (create/delete, delete/create, replace/replace back, flag change/flag change
   back, none/none with the level below) ends in an operation none that lyd_diff_is_redundant() removes. *)
Theorem C13_merge_undo :
  forall sch mdflt fa fb, wfb sch fa = true -> wfb sch fb = true ->
  exists d1 d2, diff sch true fa fb = Ok d1 /\ diff sch true fb fa = Ok d2 /\ merge sch mdflt (map redup d1) d2 = Ok [].
Proof. intros sch mdflt fa fb. exact (merge_undo sch mdflt fa fb). Qed.
Print Assumptions C13_merge_undo.

(* The composition law  apply (merge (diff A B) (diff B C)) A = Ok C  in the case it is proved for: C = A (the second
   diff undoes the first), over any schema (hypothesis schema_nouo removed, see C13_merge_undo).
   Proved beyond it: C13_merge_apply_partial_mixed (end of this file) - every C in which the top-level identities touched
   by both diffs are back at their state in A; C = A and the disjoint case are instances of it - and
   C13_merge_apply_partial_cells: in addition the roots that meet may be leaves in the cells replace + replace,
   create + replace, create + none, replace + none, replace + delete, delete + create (mdflt = false).
   What remains missing for the full statement, precisely: a proof for the MIXED cells, i.e. for a root (or, below two
   none nodes, a child) of diff(B,C) that meets a node of diff(A,B) with the same identity without undoing it:
   at the top level the two leaf cells none (flag) + replace and none (flag) + delete (their merged node is not an Sp
   node, see C13_merge_apply_partial_cells) and every non-cancelling cell of an inner node or (leaf-)list instance, in
   particular none(inner) + none(inner) with changes below that are not each other's undo; below the top level every
   cell.  The level bookkeeping is done
   (DiffMergeP.level_build: LevelSp from pointwise facts; mix_fold: the fold over the source roots with the outcomes
   cancel / add, mix_fold3: with the third outcome, the met node replaced in place; cell_replace_replace, cell_create_replace,
   cell_create_none, cell_replace_none, cell_replace_delete, cell_delete_create: the Sp of the merged leaf); what the
   remaining cells still need is (2) per
   cell the Sp of the merged node (for none + none: Sp_none_inner of the merged parent via sp_inner_build), (3) for
   none + none the recursion through merge_children with the default-flag walks and the removal of a parent that
   becomes redundant, and (4) for children added below a merged list instance a schema fact the model does not have yet:
   LYD_INSERT_NODE_LAST_BY_SCHEMA (dd_ins_last) orders by schema id, so the keys stay the leading children of the merged
   parent only if every key has a smaller id than the other children of its list.  With LYD_DIFF_MERGE_DEFAULTS the full
   law is FALSE (known finding merge-defaults-opt-delete-create: delete + create of a leaf with its schema default value
   keeps the deleted value), so the general statement can only be claimed for mdflt = false; the two theorems here hold
   for both options because neither an undo nor a disjoint addition reaches that cell with differing values.
   No counterexample is known for mdflt = false since 2dd55cd: the model agrees with libyang on every cell of the merge
   table in the correspondence run and the law is checked on the implementation by dump equality on every generated
   triple (tools/props/comps_difftree.py: DiffTreeLaws, DiffMergeOpts). *)
Theorem C13_merge_apply_partial :
  forall sch mdflt fa fb, wfb sch fa = true -> wfb sch fb = true ->
  exists d1 d2 m, diff sch true fa fb = Ok d1 /\ diff sch true fb fa = Ok d2 /\
                  merge sch mdflt (map redup d1) d2 = Ok m /\ apply sch m fa = Ok fa.
Proof.
  intros sch mdflt fa fb Ha Hb. destruct (merge_undo sch mdflt fa fb Ha Hb) as [d1 [d2 [E1 [E2 E3]]]].
  exists d1, d2, []. repeat split; assumption.
Qed.
Print Assumptions C13_merge_apply_partial.

(* the undo theorem on the witnesses (their schema happens to have no user-ordered list; not needed any more) *)
Example C13_merge_undo_example :
  schema_nouo w_sch = true /\
  match diff w_sch true r_A r_B, diff w_sch true r_B r_A with
  | Ok d1, Ok d2 => d1 <> [] /\ d2 <> [] /\ merge w_sch false (map redup d1) d2 = Ok []
  | _, _ => False
  end.
Proof. vm_compute. repeat split; discriminate. Qed.

(* The composition law for INDEPENDENT changes: when diff(B,C) touches other top-level instances than diff(A,B) (no root
   of the one has the identity of a root of the other), merging succeeds (every source root is added to the diff, none
   is redundant) and the merged diff applied to A yields C exactly, with either merge option.  Together with
   C13_merge_apply_partial (C = A: every source root meets its counterpart) these are the two ends of the merge table;
   the mixed cells in between are tied by the correspondence run only (list of what is missing: at
   C13_merge_apply_partial).  Any schema: the hypothesis schema_nouo is removed here as well. *)
Theorem C13_merge_apply_partial_disjoint :
  forall sch mdflt fa fb fc d1 d2,
  wfb sch fa = true -> wfb sch fb = true -> wfb sch fc = true ->
  diff sch true fa fb = Ok d1 -> diff sch true fb fc = Ok d2 ->
  (forall s t, In s d2 -> In t d1 -> dd_id sch s <> dd_id sch t) ->
  exists m, merge sch mdflt (map redup d1) d2 = Ok m /\ apply sch m fa = Ok fc.
Proof. intros sch mdflt fa fb fc d1 d2. exact (merge_apply_disjoint sch mdflt fa fb fc d1 d2). Qed.
Print Assumptions C13_merge_apply_partial_disjoint.

(* its hypotheses are satisfiable: A = l[1] {c {x = 5}}, B = l[1] {c default}, C = B plus l[2] *)
Example C13_merge_disjoint_example :
  let l2 := DN 0 [] false [] [DN 1 [50] false [] []; DN 2 [] false [] [DN 3 [56] false [] []]] in
  let fc := r_B ++ [l2] in
  wfb w_sch fc = true /\
  match diff w_sch true r_A r_B, diff w_sch true r_B fc with
  | Ok d1, Ok d2 =>
      length d1 = 1%nat /\ length d2 = 1%nat /\
      forallb (fun s => forallb (fun t => negb (same_idb w_sch (dd_node s) (dd_node t))) d1) d2 = true /\
      match merge w_sch false (map redup d1) d2 with
      | Ok m => length m = 2%nat /\ apply w_sch m r_A = Ok fc
      | Err _ => False
      end
  | _, _ => False
  end.
Proof. vm_compute. repeat split; reflexivity. Qed.

(* The composition law for every C in which each top-level identity that both diffs touch is back at its state in A
   (the hypothesis is stated on the trees: where a root of diff(B,C) meets a root of diff(A,B), C and A hold the same
   instance, or both none): the roots that meet cancel (every cell an undo reaches, any depth below them), the other
   roots of diff(B,C) are added, the other roots of diff(A,B) stay, and the merged diff applied to A yields C exactly,
   with either merge option.  C13_merge_apply_partial (C = A) and C13_merge_apply_partial_disjoint (no root meets one)
   are its two extreme instances; in between are partial rollbacks combined with independent changes.  Still missing:
   roots that meet WITHOUT cancelling (list at C13_merge_apply_partial). *)
Theorem C13_merge_apply_partial_mixed :
  forall sch mdflt fa fb fc d1 d2,
  wfb sch fa = true -> wfb sch fb = true -> wfb sch fc = true ->
  diff sch true fa fb = Ok d1 -> diff sch true fb fc = Ok d2 ->
  (forall s t j, In s d2 -> In t d1 -> dd_id sch s = Some j -> dd_id sch t = Some j ->
                 find_match sch true fc (Some j) = find_match sch true fa (Some j)) ->
  exists m, merge sch mdflt (map redup d1) d2 = Ok m /\ apply sch m fa = Ok fc.
Proof. intros sch mdflt fa fb fc d1 d2. exact (merge_apply_mixed sch mdflt fa fb fc d1 d2). Qed.
Print Assumptions C13_merge_apply_partial_mixed.

(* a mixed triple: A = l[1] {c {x = 5}}, B = l[1] {c default}, C = A plus l[2] - diff(B,C) rolls l[1] back (its root
   meets the root of diff(A,B), and C holds A's instance) and creates l[2] (meets none); one root remains *)
Example C13_merge_mixed_example :
  let l2 := DN 0 [] false [] [DN 1 [50] false [] []; DN 2 [] false [] [DN 3 [56] false [] []]] in
  let fc := r_A ++ [l2] in
  wfb w_sch fc = true /\
  match diff w_sch true r_A r_B, diff w_sch true r_B fc with
  | Ok d1, Ok d2 =>
      length d1 = 1%nat /\ length d2 = 2%nat /\
      existsb (fun s => existsb (fun t => same_idb w_sch (dd_node s) (dd_node t)) d1) d2 = true /\
      match merge w_sch false (map redup d1) d2 with
      | Ok m => length m = 1%nat /\ apply w_sch m r_A = Ok fc
      | Err _ => False
      end
  | _, _ => False
  end.
Proof. vm_compute. repeat split; reflexivity. Qed.

(* The composition law when the top-level roots that meet are operations on a LEAF in one of the cells of the merge table
   in which the met root is replaced in place - or cancel as in C13_merge_apply_partial_mixed, which is the instance
   without such cells.  leaf_cell lists the cells as (operation in diff(A,B), operation in diff(B,C)):
     replace + replace  to a third value: replace with the first orig-value; back to the value with another default flag:
                        none; back altogether: removed
     create + replace   created with the last value and flag (the class of seeded change C13-4: the flag of the second
                        diff reaches a created leaf - Example C13_merge_cells_seed_regression)
     create + none      created with the new flag
     replace + none     replace with the new flag
     replace + delete   the original leaf is deleted (orig-value / orig-default restored into the node)
     delete + create    another value: replace; the same value with another flag: none; the same leaf: removed.
   Together with the cancelling pairs (create + delete and none + none on a leaf always cancel) these are all cells of a
   top-level leaf except two whose merged node is not a diff node in the sense of DiffTreeP.Sp, although applying it
   gives C: none (flag) + replace - lyd_diff_merge_replace() adds no orig-value and does not merge the flag of the second
   diff (correct only because a default leaf holds the schema default value, which wfb does not say) - and none (flag) +
   delete - the merged delete node keeps the flag of B and its orig-default.  Both need a weaker Sp (Sp_replace without
   orig-value, Sp_delete up to the flag) and apply_sp re-proved for it.
   Without LYD_DIFF_MERGE_DEFAULTS: with it the cell delete + create is the known finding
   merge-defaults-opt-delete-create.  The hypothesis is stated on the two diffs (executable).
   Still missing after this step: the two leaf cells above, every cell of a root that is an inner node or a leaf-list /
   list instance without cancelling - none (inner) + none (inner) with the recursion through merge_children, the
   default-flag walks, the removal of a parent that becomes redundant, and the keys-lead schema fact for children added
   below a merged list instance (see C13_merge_apply_partial) -, and the same cells below the top level. *)
Theorem C13_merge_apply_partial_cells :
  forall sch fa fb fc d1 d2,
  wfb sch fa = true -> wfb sch fb = true -> wfb sch fc = true ->
  diff sch true fa fb = Ok d1 -> diff sch true fb fc = Ok d2 ->
  (forall s t j, In s d2 -> In t d1 -> dd_id sch s = Some j -> dd_id sch t = Some j ->
                 find_match sch true fc (Some j) = find_match sch true fa (Some j) \/ leaf_cell sch s t) ->
  exists m, merge sch false (map redup d1) d2 = Ok m /\ apply sch m fa = Ok fc.
Proof. intros sch fa fb fc d1 d2. exact (merge_apply_cells sch false fa fb fc d1 d2 eq_refl). Qed.
Print Assumptions C13_merge_apply_partial_cells.

(* the three cells at once: leaves x, y, z; A = {x = 1, z = 8}, B = {x = 2, y = 5}, C = {x = 3, y = 6, z = 9}:
   x replace + replace, y create + replace, z delete + create with another value; three merged roots, applied to A: C *)
Definition c_sch : schema :=
  [ (0, mk_sinfo KLeaf None [] false true [] [] false 0 None OBytes);
    (1, mk_sinfo KLeaf None [] false true [] [] false 0 None OBytes);
    (2, mk_sinfo KLeaf None [] false true [] [] false 0 None OBytes) ].
Example C13_merge_cells_example :
  let fa := [DN 0 [49] false [] []; DN 2 [56] false [] []] in
  let fb := [DN 0 [50] false [] []; DN 1 [53] false [] []] in
  let fc := [DN 0 [51] false [] []; DN 1 [54] false [] []; DN 2 [57] false [] []] in
  wfb c_sch fa = true /\ wfb c_sch fb = true /\ wfb c_sch fc = true /\
  match diff c_sch true fa fb, diff c_sch true fb fc with
  | Ok d1, Ok d2 =>
      map dd_op d1 = [Some OpReplace; Some OpCreate; Some OpDelete] /\
      map dd_op d2 = [Some OpReplace; Some OpReplace; Some OpCreate] /\
      match merge c_sch false (map redup d1) d2 with
      | Ok m => map dd_op m = [Some OpReplace; Some OpCreate; Some OpReplace] /\ apply c_sch m fa = Ok fc
      | Err _ => False
      end
  | _, _ => False
  end.
Proof. vm_compute. repeat split; reflexivity. Qed.

(* the other three cells: A = {y = 1, z = 8}, B = {x = 5, y = 2, z = 9}, C = {x = 5 default, y = 2 default}:
   x create + none, y replace + none, z replace + delete *)
Example C13_merge_cells_example2 :
  let fa := [DN 1 [49] false [] []; DN 2 [56] false [] []] in
  let fb := [DN 0 [53] false [] []; DN 1 [50] false [] []; DN 2 [57] false [] []] in
  let fc := [DN 0 [53] true [] []; DN 1 [50] true [] []] in
  wfb c_sch fa = true /\ wfb c_sch fb = true /\ wfb c_sch fc = true /\
  match diff c_sch true fa fb, diff c_sch true fb fc with
  | Ok d1, Ok d2 =>
      map dd_op d1 = [Some OpCreate; Some OpReplace; Some OpReplace] /\
      map dd_op d2 = [Some OpNone; Some OpNone; Some OpDelete] /\
      match merge c_sch false (map redup d1) d2 with
      | Ok m => map dd_op m = [Some OpCreate; Some OpReplace; Some OpDelete] /\ apply c_sch m fa = Ok fc
      | Err _ => False
      end
  | _, _ => False
  end.
Proof. vm_compute. repeat split; reflexivity. Qed.

(* regression case of the class of seeded change C13-4 (the default flag of the second diff must reach a leaf the first
   diff creates): leaf x with schema default 7; A = {}, B = {x = 5}, C = {x = 7 default}: create + replace gives ONE
   create of x = 7 WITH the default flag, and the merged diff applied to A is C *)
Definition s_sch : schema := [ (0, mk_sinfo KLeaf None [] false true [[55]] [] false 0 None OBytes) ].
Example C13_merge_cells_seed_regression :
  let fb := [DN 0 [53] false [] []] in
  let fc := [DN 0 [55] true [] []] in
  wfb s_sch fb = true /\ wfb s_sch fc = true /\
  match diff s_sch true [] fb, diff s_sch true fb fc with
  | Ok d1, Ok d2 =>
      match merge s_sch false (map redup d1) d2 with
      | Ok m => m = [DD 0 [55] true (Some OpCreate) None None []] /\ apply s_sch m [] = Ok fc
      | Err _ => False
      end
  | _, _ => False
  end.
Proof. vm_compute. repeat split; reflexivity. Qed.
