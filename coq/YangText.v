(* YangText.v — model of the string side of the YANG schema printer and parser:
     printer  src/printer_yang.c : ypr_encode(), ypr_text_squote_line(), ypr_text()
     lexer    src/parser_yang.c  : buf_store_char(), skip_comment(), read_qstring(), get_argument() entered at a quote
   The model is what the code does (see the remarks marked DEFECT); nothing is proved in this file.
   State of the code modelled: ypr_text() after commit f628c31 - in a double-quoted text a newline whose
   preceding character is a blank, or (LYS_YPR_TEXT_SINGLELINE) whose following character is a blank, is
   printed as backslash n on the same output line instead of as a line break followed by indentation
   ([text_lines], arguments dq and sl). Before that commit every newline was a real line break and the
   blanks next to it were lost on reading (RFC 7950 6.1.3 stripping in read_qstring()).
   Still as coded: a carriage return is printed raw (the lexer drops or rejects it), and the continuation
   lines of a single-quoted text are indented (the blanks become content); see Properties_C10_ytext.v. *)
From LY Require Import Base Utf8.
Local Open Scope N_scope.

(* ====================================================================================== *)
(* printer                                                                                 *)
(* ====================================================================================== *)

(* ypr_encode(): the switch over newline, tab, double quote, backslash; every other byte is copied *)
Definition esc_byte (b : N) : bytes :=
  if b =? 10 then [92; 110]
  else if b =? 9 then [92; 116]
  else if b =? 34 then [92; 34]
  else if b =? 92 then [92; 92]
  else [b].
Definition ypr_encode (s : bytes) : bytes := flat_map esc_byte s.

Definition spaces (n : N) : bytes := repeat 32 (N.to_nat n).

(* the INDENT macro: (DO_FORMAT ? LEVEL*2 : 0) blanks; DO_FORMAT is false under LY_PRINT_SHRINK *)
Definition indent_w (shrink : bool) (level : N) : N := if shrink then 0 else 2 * level.

Definition has_byte (b : N) (s : bytes) : bool := existsb (N.eqb b) s.

(* ypr_text_squote_line(): one line of a single-quoted text. Every maximal run of single quotes is
   spliced in as   ' + [dq] run [dq] + NEWLINE INDENT '   ([dq] = double quote). The C loop (find the
   next quote, count the run) is written here as one pass with the flag [inrun]. *)
Definition sq_open : bytes := [39; 32; 43; 32; 34].
Definition sq_close (ind : bytes) : bytes := [34; 32; 43; 10] ++ ind ++ [39].
Fixpoint sq_line (ind : bytes) (inrun : bool) (s : bytes) : bytes :=
  match s with
  | [] => if inrun then sq_close ind else []
  | c :: s' =>
      if c =? 39 then (if inrun then [39] else sq_open ++ [39]) ++ sq_line ind true s'
      else (if inrun then sq_close ind else []) ++ c :: sq_line ind false s'
  end.

(* the byte at the head of [s] is a blank (the C code reads nl[-1] and nl[1]; nl[1] at the end of the
   text is the terminating NUL) *)
Definition head_blank (s : bytes) : bool := match s with 32 :: _ => true | _ => false end.

(* the  while ((nl = strchr(t, NEWLINE)))  loop of ypr_text(): [cur] is the current line t..nl (reversed).
   Double-quoted text ([dq], the else branch of  if (flags & LYS_YPR_TEXT_SINGLEQUOTED) ): after the line
   has gone through ypr_encode(), when
        ((nl != t) && (nl[-1] == blank)) || ((flags & LYS_YPR_TEXT_SINGLELINE) && (nl[1] == blank))
   - [cur] is not empty and ends in a blank, or [sl] and the next line starts with a blank - the newline is
   printed as backslash n and the loop continues on the same output line (t = nl + 1; continue): nothing
   is indented and the next line starts with an empty [cur] (so a newline directly after an escaped one has
   nl == t and is judged by nl[1] only). This is the fix f628c31 for the blanks RFC 7950 6.1.3 strips.
   Otherwise (and always for single-quoted text) a real newline is printed and the continuation line is
   indented by INDENT plus one blank, except when the next character is a newline again (an empty line
   gets no blanks); at the very end of the text the blanks are printed. *)
Fixpoint text_lines (enc : bytes -> bytes) (ind : bytes) (dq sl : bool) (s cur : bytes) : bytes :=
  match s with
  | [] => enc (rev cur)
  | c :: s' =>
      if c =? 10 then
        if dq && (head_blank cur || (sl && head_blank s')) then
          enc (rev cur) ++ [92; 110] ++ text_lines enc ind dq sl s' []
        else
          enc (rev cur) ++ [10] ++ (match s' with 10 :: _ => [] | _ => ind ++ [32] end)
            ++ text_lines enc ind dq sl s' []
      else text_lines enc ind dq sl s' (c :: cur)
  end.

(* ypr_text(pctx, name, text, flags): (what is printed before the opening quote, the quoted text).
   flags: LYS_YPR_TEXT_SINGLELINE = [single_line], LYS_YPR_TEXT_SINGLEQUOTED = [single_quoted]; the
   SINGLELINE bit is cleared for a single-quoted text holding a single quote ([sl] is the bit afterwards,
   which is also what the newline test above reads). LEVEL is a uint16_t, LEVEL++ wraps. *)
Definition ypr_text_parts (shrink : bool) (level : N) (name s : bytes) (single_line single_quoted : bool)
  : bytes * bytes :=
  let quot := if single_quoted then 39 else 34 in
  let sl := single_line && negb (single_quoted && has_byte 39 s) in
  let ind0 := spaces (indent_w shrink level) in
  let lvl := if sl then level else (level + 1) mod 65536 in
  let ind := spaces (indent_w shrink lvl) in
  let head := if sl then ind0 ++ name ++ [32] else ind0 ++ name ++ [10] ++ ind in
  let enc := if single_quoted then sq_line ind false else ypr_encode in
  (head, [quot] ++ text_lines enc ind (negb single_quoted) sl s [] ++ [quot]).

Definition ypr_text (shrink : bool) (level : N) (name s : bytes) (single_line single_quoted : bool) : bytes :=
  let '(h, q) := ypr_text_parts shrink level name s single_line single_quoted in h ++ q.

(* ctx->indent of the parser when it reaches the end of [s], having started a line at column [col]:
   the number of bytes since the last newline (get_keyword()/get_argument() add 1 per byte of a
   keyword and per blank; the statement names printed here are ASCII without tabs). *)
Fixpoint col_after (col : N) (s : bytes) : N :=
  match s with
  | [] => col
  | c :: s' => col_after (if c =? 10 then 0 else col + 1) s'
  end.

(* ====================================================================================== *)
(* lexer                                                                                   *)
(* ====================================================================================== *)

Definition in_rng (lo hi c : N) : bool := (lo <=? c) && (c <=? hi).

(* is_yangutf8char() of tree_schema_internal.h, as coded. The range of plane 4 read
   (c >= 0x40000 && c <= 0x2fffd) until /repo commit f25b870 (plane 4 was rejected); now it is the
   RFC 7950 rule Utf8.is_yang_char (YangTextP.yangutf8char_spec). *)
Definition is_yangutf8char (c : N) : bool :=
  in_rng 32 55295 c || (c =? 9) || (c =? 10) || (c =? 13) ||
  in_rng 57344 64975 c || in_rng 65008 65533 c ||
  in_rng 65536 131069 c || in_rng 131072 196605 c ||
  in_rng 196608 262141 c || in_rng 262144 327677 c ||
  in_rng 327680 393213 c || in_rng 393216 458749 c ||
  in_rng 458752 524285 c || in_rng 524288 589821 c ||
  in_rng 589824 655357 c || in_rng 655360 720893 c ||
  in_rng 720896 786429 c || in_rng 786432 851965 c ||
  in_rng 851968 917501 c || in_rng 917504 983037 c ||
  in_rng 983040 1048573 c || in_rng 1048576 1114109 c.

(* buf_store_char() for Y_STR_ARG: ly_getutf8() then lysp_check_stringchar(); the bytes of the
   character are appended to the word. Some (bytes of the character, remaining input) or None (LY_EVALID). *)
Definition store_char (s : bytes) : option (bytes * bytes) :=
  match getutf8 s with
  | Some (cp, u) => if is_yangutf8char cp then Some (firstn u s, skipn u s) else None
  | None => None
  end.

(* skip_comment(ctx, 1): up to and including the next newline (end of input is fine) *)
Fixpoint skip_line_comment (s : bytes) : bytes :=
  match s with
  | [] => []
  | c :: s' => if c =? 10 then s' else skip_line_comment s'
  end.
(* skip_comment(ctx, 2): [star] = state COMMENT_BLOCK_END; None = non-terminated comment *)
Fixpoint skip_block_comment (star : bool) (s : bytes) : option bytes :=
  match s with
  | [] => None
  | c :: s' =>
      if star then
        if c =? 47 then Some s'
        else if c =? 42 then skip_block_comment true s'
        else skip_block_comment false s'
      else
        if c =? 42 then skip_block_comment true s' else skip_block_comment false s'
  end.

(* states of read_qstring() *)
Inductive qstate : Set :=
| QS_SQ      (* STRING_SINGLE_QUOTED *)
| QS_DQ      (* STRING_DOUBLE_QUOTED *)
| QS_ESC     (* STRING_DOUBLE_QUOTED_ESCAPED *)
| QS_NEXT    (* STRING_PAUSED_NEXTSTRING *)
| QS_CONT.   (* STRING_PAUSED_CONTINUE *)

Definition E_CHAR : N := 1.     (* invalid character (ly_getutf8 / lysp_check_stringchar) *)
Definition E_ESC : N := 2.      (* unknown backslash sequence *)
Definition E_CR : N := 3.       (* carriage return not followed by a newline *)
Definition E_PLUS : N := 4.     (* both parts divided by + must be quoted *)
Definition E_COMMENT : N := 5.  (* non-terminated comment *)
Definition E_NOTQ : N := 6.     (* input does not start with a quote: not modelled *)
Definition E_FUEL : N := 99.    (* model artefact, never returned by lex_qstring (fuel = length + 1) *)

(* the  while (ctx->in->current[0] && string)  loop of read_qstring().
   [bi] = block_indent, [ci] = current_indent, [tw] = trailing_ws, [acc] = the word read so far, reversed
   (the word/buffer bookkeeping of buf_store_char only decides where the bytes live).
   Result: (word, remaining input). When the input ends inside the string the C function returns
   LY_SUCCESS with the word read so far; so does the model.
   Remarks on what the code does:
   - block_indent is fixed by the first quote only: 0 when the argument starts with a single-quoted
     part (then later double-quoted parts are neither indentation- nor trailing-blank-stripped), else
     the column after the first double quote, also for later parts;
   - current_indent survives the pause between two parts;
   - DEFECT: a carriage return followed by backslash-n is dropped and the backslash is then stored as
     an ordinary character by the newline branch. *)
Fixpoint lex_f (fuel : nat) (st : qstate) (bi ci : N) (tw : nat) (s acc : bytes) {struct fuel}
  : res (bytes * bytes) :=
  match fuel with
  | O => Err E_FUEL
  | S f =>
    match s with
    | [] => Ok (rev acc, [])
    | c :: s' =>
      match st with
      | QS_SQ =>
          if c =? 39 then lex_f f QS_NEXT bi ci tw s' acc
          else match store_char s with
               | None => Err E_CHAR
               | Some (ch, r) => lex_f f QS_SQ bi ci tw r (rev_append ch acc)
               end
      | QS_DQ =>
          (* case NEWLINE (also reached from the carriage return case); [r] starts at the character stored *)
          let newline (r : bytes) :=
            let acc' := if bi =? 0 then acc else skipn tw acc in
            let ci' := if bi =? 0 then ci else 0 in
            match store_char r with
            | None => Err E_CHAR
            | Some (ch, r') => lex_f f QS_DQ bi ci' O r' (rev_append ch acc')
            end in
          if c =? 34 then lex_f f QS_NEXT bi ci O s' acc
          else if c =? 92 then lex_f f QS_ESC bi bi O s' acc
          else if c =? 32 then
            if ci <? bi then lex_f f QS_DQ bi (ci + 1) tw s' acc
            else lex_f f QS_DQ bi ci (S tw) s' (32 :: acc)
          else if c =? 9 then
            if ci <? bi then
              (* a tab counts 8 columns; what exceeds block_indent is stored as blanks *)
              let n := N.to_nat (ci + 8 - bi) in
              lex_f f QS_DQ bi (N.min (ci + 8) bi) (tw + n) s' (repeat 32 n ++ acc)
            else lex_f f QS_DQ bi ci (S tw) s' (9 :: acc)
          else if c =? 13 then
            if (rd0 s' 0 =? 10) || starts_with [92; 110] s' then newline s' else Err E_CR
          else if c =? 10 then newline s
          else match store_char s with
               | None => Err E_CHAR
               | Some (ch, r) => lex_f f QS_DQ bi bi O r (rev_append ch acc)
               end
      | QS_ESC =>
          if c =? 110 then lex_f f QS_DQ bi ci tw s' (10 :: acc)
          else if c =? 116 then lex_f f QS_DQ bi ci tw s' (9 :: acc)
          else if c =? 34 then lex_f f QS_DQ bi ci tw s' (34 :: acc)
          else if c =? 92 then lex_f f QS_DQ bi ci tw s' (92 :: acc)
          else Err E_ESC
      | QS_NEXT =>
          if c =? 43 then lex_f f QS_CONT bi ci tw s' acc
          else if c =? 13 then
            match s' with
            | 10 :: s'' => lex_f f QS_NEXT bi ci tw s'' acc
            | _ => Err E_CR
            end
          else if (c =? 10) || (c =? 32) || (c =? 9) then lex_f f QS_NEXT bi ci tw s' acc
          else Ok (rev acc, s)                                    (* goto string_end *)
      | QS_CONT =>
          if c =? 13 then
            match s' with
            | 10 :: s'' => lex_f f QS_CONT bi ci tw s'' acc
            | _ => Err E_CR
            end
          else if (c =? 10) || (c =? 32) || (c =? 9) then lex_f f QS_CONT bi ci tw s' acc
          else if c =? 39 then lex_f f QS_SQ bi ci tw s' acc
          else if c =? 34 then lex_f f QS_DQ bi ci tw s' acc
          else if c =? 47 then
            match s' with
            | 47 :: s'' => lex_f f QS_CONT bi ci tw (skip_line_comment s'') acc
            | 42 :: s'' =>
                match skip_block_comment false s'' with
                | Some r => lex_f f QS_CONT bi ci tw r acc
                | None => Err E_COMMENT
                end
            | _ => Err E_PLUS
            end
          else Err E_PLUS
      end
    end
  end.

(* get_argument(ctx, Y_STR_ARG, ...) with ctx->in->current at a quote and ctx->indent = [col] *)
Definition lex_qstring (col : N) (s : bytes) : res (bytes * bytes) :=
  match s with
  | 34 :: s' => lex_f (S (length s)) QS_DQ (col + 1) (col + 1) O s' []
  | 39 :: s' => lex_f (S (length s)) QS_SQ 0 0 O s' []
  | _ => Err E_NOTQ
  end.

(* print, then lex what was printed followed by [rest] at the column where the quote was put
   (the statement starts at the beginning of a line) *)
Definition print_then_lex (shrink : bool) (level : N) (name s : bytes) (single_line single_quoted : bool)
    (rest : bytes) : res (bytes * bytes) :=
  let '(h, q) := ypr_text_parts shrink level name s single_line single_quoted in
  lex_qstring (col_after 0 h) (q ++ rest).

(* the strings the lexer can return at all: sequences of characters buf_store_char() accepts *)
Fixpoint ylexable_f (fuel : nat) (s : bytes) : bool :=
  match fuel with
  | O => false
  | S f =>
      match s with
      | [] => true
      | _ => match store_char s with
             | None => false
             | Some (_, r) => ylexable_f f r
             end
      end
  end.
Definition ylexable (s : bytes) : bool := ylexable_f (S (length s)) s.

(* no byte [a] directly followed by byte [b] *)
Fixpoint no_pair (a b : N) (s : bytes) : bool :=
  match s with
  | x :: s' =>
      match s' with
      | y :: _ => negb ((x =? a) && (y =? b)) && no_pair a b s'
      | [] => true
      end
  | [] => true
  end.
Definition no_byte (b : N) (s : bytes) : bool := negb (has_byte b s).
