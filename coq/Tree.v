(* Tree.v -- FOUNDATION: the libyang data tree and the compiled-schema SUBSET as pure values.

   Shared by every slice that talks about data trees (merge, diff, validate, edit, ...). MODEL ONLY
   (proofs are in TreeP.v). Usage summary: coq/TREE_READY.txt. I/O: ocaml/tree_io.ml, tools/treeenc.py.

   What is modelled
     - one module; schema nodes that can be instantiated in data (container / presence container, leaf,
       leaf-list, list, anydata). Choices and cases are flattened away (as lys_getnext() does) but every
       data node records the (choice, case) chain it lives under.
     - sid = position of the schema node in the DFS order in which lys_getnext() walks the compiled
       module (list keys first - libyang moves them to the front when it compiles a list). Because the
       numbering is a pre-order, the order of two SIBLING schema nodes is the order of their sids.
     - a data node = schema id, canonical value (terms / anydata), LYD_DEFAULT flag, metadata, children.
       LYD_NEW / LYD_WHEN_TRUE / LYD_EXT and the hash / children_ht / lyds_tree indexes are NOT here.
   What is not modelled: opaque nodes, several modules at top level (top-level order is by strcmp of
   the module name first), RPC / action / notification trees, extension data. *)
From LY Require Import Base.
Local Open Scope N_scope.

(* ------------------------------------------------------------------------------------------- *)
(* schema subset                                                                                 *)
(* ------------------------------------------------------------------------------------------- *)
Definition sid := N.

Inductive skind := KCont (presence : bool) | KLeaf | KLeafList | KList | KAny.

(* which total order the sort callback of the type uses (plugins_types/ *.c, .plugin.sort), on CANONICAL values:
     OBytes  lyplg_type_sort_simple: strcmp of the canonical strings (string, and every type without own callback)
     OInt    lyplg_type_sort_int / _uint: by the stored integer
     ODec    lyplg_type_sort_decimal64: by the stored int64 (same fraction-digits on both sides)
     OBool   lyplg_type_sort_boolean: false < true
     OEnum   lyplg_type_sort_enum: by the enum VALUE, DESCENDING (the callback returns -1 when val1 > val2);
             the table maps the enum name to its value
   union / bits / identityref / ... are not implemented: generators must not use them for keys of
   system-ordered lists or for system-ordered leaf-lists (tools/treeenc.py: order_supported). *)
Inductive vorder := OBytes | OInt | ODec | OBool | OEnum (tbl : list (bytes * Z)).

(* one level of the choice/case chain above a data node: ids are assigned by the encoder (position of the
   choice among all choices of the module, position of the case in its choice) *)
Record chc := mk_chc {
  ch_id : N;            (* choice *)
  ch_case : N;          (* case of that choice the node is in *)
  ch_dflt : bool;       (* that case is the default case of the choice *)
  ch_mand : bool        (* the choice is mandatory *)
}.

Record sinfo := mk_sinfo {
  si_kind : skind;
  si_parent : option sid;        (* data parent: lysc_data_parent(), None at top level *)
  si_keys : list sid;            (* list: its key leaves in key order; [] for a key-less list and for other kinds *)
  si_userord : bool;             (* the ordered-by user STATEMENT (see [userordered] for the effective flag) *)
  si_config : bool;              (* config true *)
  si_dflts : list bytes;         (* canonical default values: leaf at most one, leaf-list several *)
  si_choice : list chc;          (* enclosing choice/case chain, outermost first *)
  si_mand : bool;                (* mandatory true (leaf, anydata) *)
  si_min : N;                    (* min-elements *)
  si_max : option N;             (* max-elements, None = unbounded *)
  si_order : vorder              (* terms: order of the type *)
}.

Definition schema := list (sid * sinfo).

Fixpoint lookup (sch : schema) (s : sid) : option sinfo :=
  match sch with
  | [] => None
  | (k, i) :: r => if k =? s then Some i else lookup r s
  end.

Definition si_none : sinfo := mk_sinfo KAny None [] false true [] [] false 0 None OBytes.

Definition sget (sch : schema) (s : sid) : sinfo :=
  match lookup sch s with Some i => i | None => si_none end.

Definition kind_of (sch : schema) (s : sid) : skind := si_kind (sget sch s).

(* (leaf-)list: several instances may exist *)
Definition multi (sch : schema) (s : sid) : bool :=
  match kind_of sch s with KList | KLeafList => true | _ => false end.

(* lysc_is_userordered(): LYS_ORDBY_USER is set by the compiler for ordered-by user, for EVERY config false
   (leaf-)list (lys_compile_node_: state data is not ordered) and for key-less lists *)
Definition userordered (sch : schema) (s : sid) : bool :=
  let i := sget sch s in
  match si_kind i with
  | KList => si_userord i || negb (si_config i) || match si_keys i with [] => true | _ => false end
  | KLeafList => si_userord i || negb (si_config i)
  | _ => false
  end.

(* lysc_is_dup_inst_list(): key-less list or config false leaf-list: equal instances may repeat *)
Definition dup_inst (sch : schema) (s : sid) : bool :=
  let i := sget sch s in
  match si_kind i with
  | KList => match si_keys i with [] => true | _ => false end
  | KLeafList => negb (si_config i)
  | _ => false
  end.

(* lyds_is_supported(): LYS_ORDBY_SYSTEM and (leaf-list or list with keys): instances are kept sorted *)
Definition sorted_sid (sch : schema) (s : sid) : bool := multi sch s && negb (userordered sch s).

(* is s a key of its parent list (LYS_KEY) *)
Definition is_key (sch : schema) (s : sid) : bool :=
  match si_parent (sget sch s) with
  | Some p => existsb (N.eqb s) (si_keys (sget sch p))
  | None => false
  end.

(* leaf / leaf-list / anydata: LYD_NODE_TERM | LYD_NODE_ANY, no children *)
Definition is_term_kind (k : skind) : bool :=
  match k with KLeaf | KLeafList | KAny => true | _ => false end.
Definition is_term (sch : schema) (s : sid) : bool := is_term_kind (kind_of sch s).

(* non-presence container (lysc_is_np_cont) *)
Definition is_np_cont (sch : schema) (s : sid) : bool :=
  match kind_of sch s with KCont false => true | _ => false end.

(* ------------------------------------------------------------------------------------------- *)
(* data                                                                                          *)
(* ------------------------------------------------------------------------------------------- *)
Inductive dnode := DN (s : sid) (v : bytes) (dflt : bool) (meta : list (bytes * bytes)) (ch : list dnode).
Definition forest := list dnode.

Definition d_sid (n : dnode) : sid := match n with DN s _ _ _ _ => s end.
Definition d_val (n : dnode) : bytes := match n with DN _ v _ _ _ => v end.
Definition d_dflt (n : dnode) : bool := match n with DN _ _ d _ _ => d end.
Definition d_meta (n : dnode) : list (bytes * bytes) := match n with DN _ _ _ m _ => m end.
Definition d_ch (n : dnode) : forest := match n with DN _ _ _ _ ch => ch end.

Definition set_ch (n : dnode) (ch : forest) : dnode := match n with DN s v d m _ => DN s v d m ch end.
Definition set_dflt (n : dnode) (d : bool) : dnode := match n with DN s v _ m ch => DN s v d m ch end.
Definition set_val (n : dnode) (v : bytes) : dnode := match n with DN s _ d m ch => DN s v d m ch end.

(* induction principle for the nested list: the one Coq generates has no hypothesis for the children *)
Section DnodeInd.
  Variable P : dnode -> Prop.
  Hypothesis H : forall s v d m ch, Forall P ch -> P (DN s v d m ch).
  Fixpoint dnode_ind' (n : dnode) : P n :=
    match n with
    | DN s v d m ch =>
        H s v d m ch
          ((fix go (l : list dnode) : Forall P l :=
              match l with
              | [] => Forall_nil P
              | x :: l' => Forall_cons x (dnode_ind' x) (go l')
              end) ch)
    end.
End DnodeInd.

(* number of nodes (fuel for functions that are not structurally recursive) *)
Fixpoint dsize (n : dnode) : nat :=
  match n with DN _ _ _ _ ch => S (fold_right (fun c a => (dsize c + a)%nat) O ch) end.
Definition fsize (f : forest) : nat := fold_right (fun c a => (dsize c + a)%nat) O f.

(* decidable equality *)
Fixpoint beq_meta (a b : list (bytes * bytes)) : bool :=
  match a, b with
  | [], [] => true
  | (k1, v1) :: a', (k2, v2) :: b' => beq_bytes k1 k2 && beq_bytes v1 v2 && beq_meta a' b'
  | _, _ => false
  end.

Fixpoint dnode_eqb (a b : dnode) {struct a} : bool :=
  match a, b with
  | DN s1 v1 d1 m1 c1, DN s2 v2 d2 m2 c2 =>
      (s1 =? s2) && beq_bytes v1 v2 && Bool.eqb d1 d2 && beq_meta m1 m2 &&
      (fix go (l1 l2 : list dnode) {struct l1} : bool :=
         match l1, l2 with
         | [], [] => true
         | x :: l1', y :: l2' => dnode_eqb x y && go l1' l2'
         | _, _ => false
         end) c1 c2
  end.
Fixpoint forest_eqb (a b : forest) : bool :=
  match a, b with
  | [], [] => true
  | x :: a', y :: b' => dnode_eqb x y && forest_eqb a' b'
  | _, _ => false
  end.

(* ------------------------------------------------------------------------------------------- *)
(* value order                                                                                   *)
(* ------------------------------------------------------------------------------------------- *)
(* generic lexicographic comparison (a proper prefix is smaller) *)
Section Lex.
  Context {A : Type}.
  Variable c : A -> A -> comparison.
  Fixpoint lex_cmp (a b : list A) : comparison :=
    match a, b with
    | [], [] => Eq
    | [], _ :: _ => Lt
    | _ :: _, [] => Gt
    | x :: a', y :: b' => match c x y with Eq => lex_cmp a' b' | r => r end
    end.
End Lex.

Definition lexZ : list Z -> list Z -> comparison := lex_cmp Z.compare.

(* every supported order is the lexicographic order of an integer-sequence key of the canonical value *)
Definition int_key (v : bytes) : list Z :=
  match v with
  | 45 :: r => [(- Z.of_N (dec_to_N r))%Z]          (* '-' *)
  | _ => [Z.of_N (dec_to_N v)]
  end.

Fixpoint split_dot (v : bytes) : bytes * bytes :=      (* at the first '.' *)
  match v with
  | [] => ([], [])
  | 46 :: r => ([], r)
  | x :: r => let '(a, b) := split_dot r in (x :: a, b)
  end.

(* canonical decimal64: [-]digits.digits with no trailing zero after the first fraction digit, so two values of
   one type compare as: sign, integer part, fraction digits lexicographically (shorter prefix = smaller magnitude) *)
Definition dec_key (v : bytes) : list Z :=
  match v with
  | 45 :: r =>
      let '(ip, fr) := split_dot r in
      ((-1) :: (- Z.of_N (dec_to_N ip)) :: map (fun d => (- Z.of_N d)) fr ++ [256])%Z
  | _ =>
      let '(ip, fr) := split_dot v in
      (1 :: Z.of_N (dec_to_N ip) :: map Z.of_N fr ++ [-1])%Z
  end.

Fixpoint enum_val (tbl : list (bytes * Z)) (v : bytes) : Z :=
  match tbl with
  | [] => 0%Z
  | (nm, x) :: r => if beq_bytes nm v then x else enum_val r v
  end.

Definition vkey (o : vorder) (v : bytes) : list Z :=
  match o with
  | OBytes => map Z.of_N v
  | OInt => int_key v
  | ODec => dec_key v
  | OBool => [if beq_bytes v [116; 114; 117; 101] then 1%Z else 0%Z]     (* true *)
  | OEnum tbl => [(- enum_val tbl v)%Z]
  end.

Definition val_cmp (o : vorder) (a b : bytes) : comparison := lexZ (vkey o a) (vkey o b).

(* ------------------------------------------------------------------------------------------- *)
(* instance identity and order among siblings                                                    *)
(* ------------------------------------------------------------------------------------------- *)
Definition find_sid (f : forest) (s : sid) : option dnode := find (fun c => d_sid c =? s) f.

(* value of the child with schema k ([] when absent) *)
Definition child_val (ch : forest) (k : sid) : bytes :=
  match find_sid ch k with Some c => d_val c | None => [] end.

Definition key_vals (sch : schema) (n : dnode) : list bytes :=
  map (child_val (d_ch n)) (si_keys (sget sch (d_sid n))).

(* sort key of an instance: rb_compare_lists (key by key, first difference decides) / rb_compare_leaflists *)
Definition node_key (sch : schema) (n : dnode) : list (list Z) :=
  let i := sget sch (d_sid n) in
  match si_kind i with
  | KList => map (fun k => vkey (si_order (sget sch k)) (child_val (d_ch n) k)) (si_keys i)
  | _ => [vkey (si_order i) (d_val n)]
  end.

Definition node_cmp (sch : schema) (a b : dnode) : comparison :=
  lex_cmp lexZ (node_key sch a) (node_key sch b).

(* what identifies an instance among its siblings (lyd_compare_single(.., 0) + the schema): the schema alone for
   leaves / containers / anydata, schema + key tuple for lists with keys, schema + value for config true leaf-lists,
   nothing for duplicate-instance lists (their instances are matched by position among equal ones) *)
Inductive iid := IdNode (s : sid) | IdKeys (s : sid) (ks : list bytes) | IdVal (s : sid) (v : bytes).

Definition inst_id (sch : schema) (n : dnode) : option iid :=
  let s := d_sid n in
  if dup_inst sch s then None
  else match kind_of sch s with
       | KList => Some (IdKeys s (key_vals sch n))
       | KLeafList => Some (IdVal s (d_val n))
       | _ => Some (IdNode s)
       end.

Fixpoint beq_bytes_list (a b : list bytes) : bool :=
  match a, b with
  | [], [] => true
  | x :: a', y :: b' => beq_bytes x y && beq_bytes_list a' b'
  | _, _ => false
  end.

Definition iid_eqb (a b : iid) : bool :=
  match a, b with
  | IdNode s, IdNode t => s =? t
  | IdKeys s k, IdKeys t l => (s =? t) && beq_bytes_list k l
  | IdVal s v, IdVal t w => (s =? t) && beq_bytes v w
  | _, _ => false
  end.

Definition has_id (sch : schema) (i : iid) (n : dnode) : bool :=
  match inst_id sch n with Some j => iid_eqb i j | None => false end.

Definition same_inst (sch : schema) (a b : dnode) : bool :=
  match inst_id sch a with Some i => has_id sch i b | None => false end.

Definition find_inst (sch : schema) (f : forest) (i : iid) : option dnode := find (has_id sch i) f.

(* a node addressed by its instance path from the top level *)
Fixpoint lookup_path (sch : schema) (f : forest) (p : list iid) : option dnode :=
  match p with
  | [] => None
  | [i] => find_inst sch f i
  | i :: p' => match find_inst sch f i with Some n => lookup_path sch (d_ch n) p' | None => None end
  end.

(* ------------------------------------------------------------------------------------------- *)
(* canonical order                                                                               *)
(* ------------------------------------------------------------------------------------------- *)
Definition is_gt (c : comparison) : bool := match c with Gt => true | _ => false end.

(* b may directly follow a among siblings: schema order; several instances only of (leaf-)lists (contiguous because
   sids never decrease); system-ordered instances not decreasing in the type order (equal keys allowed: the
   insertion is stable) *)
Definition sib_okb (sch : schema) (a b : dnode) : bool :=
  (d_sid a <? d_sid b) ||
  ((d_sid a =? d_sid b) && multi sch (d_sid a) &&
   (negb (sorted_sid sch (d_sid a)) || negb (is_gt (node_cmp sch a b)))).

Fixpoint adjb {A} (r : A -> A -> bool) (l : list A) : bool :=
  match l with
  | a :: ((b :: _) as t) => r a b && adjb r t
  | _ => true
  end.

Definition opt_sid_eqb (a b : option sid) : bool :=
  match a, b with
  | None, None => true
  | Some x, Some y => x =? y
  | _, _ => false
  end.

(* the node is an instance of a known schema node that belongs under parent p, a list instance has all its keys,
   a term node has no children *)
Definition node_okb (sch : schema) (p : option sid) (s : sid) (ch : forest) : bool :=
  match lookup sch s with
  | None => false
  | Some i =>
      opt_sid_eqb (si_parent i) p &&
      forallb (fun k => existsb (fun c => d_sid c =? k) ch) (si_keys i) &&
      (negb (is_term_kind (si_kind i)) || match ch with [] => true | _ => false end)
  end.

Fixpoint canon_nodeb (sch : schema) (p : option sid) (n : dnode) {struct n} : bool :=
  match n with
  | DN s v d m ch =>
      node_okb sch p s ch && adjb (sib_okb sch) ch && forallb (canon_nodeb sch (Some s)) ch
  end.

(* boolean checker of [Canon] for the children of parent p (None = top level) *)
Definition canonb (sch : schema) (p : option sid) (f : forest) : bool :=
  adjb (sib_okb sch) f && forallb (canon_nodeb sch p) f.

Inductive Adj {A} (R : A -> A -> Prop) : list A -> Prop :=
| Adj_nil : Adj R []
| Adj_one a : Adj R [a]
| Adj_cons a b l : R a b -> Adj R (b :: l) -> Adj R (a :: b :: l).

Definition sib_ok (sch : schema) (a b : dnode) : Prop :=
  d_sid a < d_sid b \/
  (d_sid a = d_sid b /\ multi sch (d_sid a) = true /\
   (sorted_sid sch (d_sid a) = true -> node_cmp sch a b <> Gt)).

Definition node_ok (sch : schema) (p : option sid) (s : sid) (ch : forest) : Prop :=
  exists i, lookup sch s = Some i /\ si_parent i = p /\
            (forall k, In k (si_keys i) -> exists c, In c ch /\ d_sid c = k) /\
            (is_term_kind (si_kind i) = true -> ch = []).

(* the canonical form lyd_insert_node() maintains and the parsers / validation produce:
   siblings in schema order, instances of one schema node contiguous, only (leaf-)lists have several instances,
   system-ordered instances sorted by the type order of key tuple / value, list instances have their keys, terms have
   no children, every node sits under its schema parent - recursively. (Keys come first in key order because the compiled schema
   puts them first: [schema_okb] + TreeP.canon_keys_first.) *)
Fixpoint CanonN (sch : schema) (p : option sid) (n : dnode) {struct n} : Prop :=
  match n with
  | DN s v d m ch =>
      node_ok sch p s ch /\ Adj (sib_ok sch) ch /\
      (fix all (l : list dnode) : Prop :=
         match l with [] => True | x :: l' => CanonN sch (Some s) x /\ all l' end) ch
  end.

Definition CanonAt (sch : schema) (p : option sid) (f : forest) : Prop :=
  Adj (sib_ok sch) f /\ Forall (CanonN sch p) f.

Definition Canon (sch : schema) (f : forest) : Prop := CanonAt sch None f.

(* no two siblings with the same identity, recursively (what validation guarantees; duplicate-instance lists have
   no identity and are exempt) *)
Fixpoint uniq_idsb_list (sch : schema) (f : forest) : bool :=
  match f with
  | [] => true
  | n :: r => negb (existsb (same_inst sch n) r) && uniq_idsb_list sch r
  end.
Fixpoint uniq_nodeb (sch : schema) (n : dnode) {struct n} : bool :=
  match n with DN s v d m ch => uniq_idsb_list sch ch && forallb (uniq_nodeb sch) ch end.
Definition uniq_idsb (sch : schema) (f : forest) : bool :=
  uniq_idsb_list sch f && forallb (uniq_nodeb sch) f.

(* schema sanity that the encoder guarantees: only lists have keys, keys of a list are leaves whose parent is the list,
   they are the smallest sids below the list and increase in key order *)
Definition schema_okb (sch : schema) : bool :=
  forallb (fun e : sid * sinfo =>
    let '(s, i) := e in
    match si_kind i with KList => true | _ => match si_keys i with [] => true | _ => false end end &&
    forallb (fun k => match lookup sch k with
                      | Some ki => opt_sid_eqb (si_parent ki) (Some s) &&
                                   match si_kind ki with KLeaf => true | _ => false end
                      | None => false end) (si_keys i) &&
    adjb N.ltb (si_keys i) &&
    forallb (fun e' : sid * sinfo =>
      let '(c, ci) := e' in
      negb (opt_sid_eqb (si_parent ci) (Some s)) || existsb (N.eqb c) (si_keys i) ||
      forallb (fun k => k <? c) (si_keys i)) sch) sch.

(* ------------------------------------------------------------------------------------------- *)
(* lyd_insert_node(parent, first_sibling, node, LYD_INSERT_NODE_DEFAULT)                         *)
(* ------------------------------------------------------------------------------------------- *)
(* must n go before sibling b?
     - lyd_insert_node_ordby_schema / lyd_insert_get_next_anchor: the anchor is the first sibling whose schema
       comes after n's in lys_getnext order (both the hash path and the linear path find it when the siblings are
       canonical); n is linked before it, or last when there is none. So n lands after every instance of its own
       schema node (user-ordered: appended).
     - lyds_insert (lyds_is_supported(n) and a leader exists): rb_insert_node descends left only when
       rb_compare(tmp, n) > 0, i.e. n goes after the last instance that is not greater (stable), and
       lyds_link_data_node links it there.
   On siblings that are not canonical the C code can answer differently (the two anchor searches disagree, the
   red-black tree order is not the sibling order); the theorems assume [Canon]. *)
Definition goes_before (sch : schema) (n b : dnode) : bool :=
  (d_sid n <? d_sid b) ||
  ((d_sid n =? d_sid b) && sorted_sid sch (d_sid n) && is_gt (node_cmp sch b n)).

Fixpoint insert_node (sch : schema) (f : forest) (n : dnode) : forest :=
  match f with
  | [] => [n]
  | b :: r => if goes_before sch n b then n :: b :: r else b :: insert_node sch r n
  end.

(* rebuild a forest by inserting its nodes one by one (children first) in the given order: what a parser without
   LYD_PARSE_ORDERED does *)
Fixpoint rebuild_node (sch : schema) (n : dnode) {struct n} : dnode :=
  match n with
  | DN s v d m ch => DN s v d m (fold_left (insert_node sch) (map (rebuild_node sch) ch) [])
  end.
Definition rebuild (sch : schema) (f : forest) : forest :=
  fold_left (insert_node sch) (map (rebuild_node sch) f) [].
