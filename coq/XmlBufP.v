(* XmlBufP.v - proofs about XmlBuf.v (slice xmlbuf): every store of lyxml_parse_value() lies inside the block
   as it is at that moment, the growth loop ends, the stores are contiguous and fill the final block exactly,
   sizes stay within the input length plus a constant; the one-shot growth of the seeded change C05-5 overflows. *)
From Coq Require Import NArith List Lia Bool.
From LY Require Import XmlBuf.
Import ListNotations.
Local Open Scope N_scope.

(* ---------- the growth loop ---------- *)

Lemma grow_loop_ok : forall fuel target size acc,
  target < size + N.of_nat fuel * BUFSIZE_STEP ->
  exists size1 tr, grow_loop fuel target size acc = Some (size1, tr) /\ target < size1 /\ size <= size1 /\
    (size1 = size \/ size1 <= target + BUFSIZE_STEP) /\
    (forall a, In a tr -> In a acc \/ exists n, a = ARealloc n /\ n <= size1).
Proof.
  unfold BUFSIZE_STEP. induction fuel as [|f IH]; intros target size acc H; simpl grow_loop.
  - assert (E : (target <? size) = true) by (apply N.ltb_lt; simpl in H; lia).
    rewrite E. exists size, acc. repeat split; try lia; try (now left); try (intros a Ha; now left).
  - destruct (target <? size) eqn:E.
    + apply N.ltb_lt in E. exists size, acc. repeat split; try lia; try (now left); try (intros a Ha; now left).
    + apply N.ltb_ge in E.
      destruct (IH target (size + 128) (ARealloc (size + 128) :: acc)) as (s1 & tr & G & L & M & B & T).
      { rewrite Nat2N.inj_succ in H. lia. }
      exists s1, tr. unfold BUFSIZE_STEP in *. rewrite G.
      split; [reflexivity|]. split; [lia|]. split; [lia|]. split; [lia|].
      intros a Ha. destruct (T a Ha) as [[<-|I]|I]; auto. right. exists (size + 128). split; auto.
Qed.

Lemma grow_coded_ok : forall target size,
  exists size1 tr, grow_coded target size = Some (size1, tr) /\ target < size1 /\ size <= size1 /\
    (size1 = size \/ size1 <= target + BUFSIZE_STEP) /\
    (forall a, In a tr -> exists n, a = ARealloc n /\ n <= size1).
Proof.
  intros target size. unfold grow_coded.
  destruct (grow_loop_ok (S (N.to_nat (target / BUFSIZE_STEP))) target size []) as (s1 & tr & G & L & M & B & T).
  - rewrite Nat2N.inj_succ, N2Nat.id. unfold BUFSIZE_STEP.
    pose proof (N.div_mod target 128 ltac:(lia)). pose proof (N.mod_lt target 128 ltac:(lia)). lia.
  - exists s1, tr. repeat split; auto. intros a Ha. destruct (T a Ha) as [[]|I]; auto.
Qed.

(* ---------- lyxml_parse_value_use_buf ---------- *)

Lemma use_buf_coded : forall s need,
  exists s1 ws tr, use_buf coded s need = UB s1 ws tr /\
    b_alloc s1 = true /\ b_off s1 = 0 /\ b_len s1 = b_len s + b_off s /\ b_len s1 + need < b_size s1 /\
    Forall wr_ok ws /\ contig (b_len s) ws = Some (b_len s1) /\
    (b_size s1 = (if b_alloc s then b_size s else BUFSIZE) \/ b_size s1 <= b_len s1 + need + BUFSIZE_STEP) /\
    (forall p n z, In (W p n z) ws -> z = b_size s1).
Proof.
  intros s need. unfold use_buf, coded.
  destruct (grow_coded_ok (b_len s + b_off s + need) (if b_alloc s then b_size s else BUFSIZE))
    as (s1 & tr & G & L & M & B & T).
  rewrite G. eexists _, _, _. split; [reflexivity|]. simpl. repeat split; auto; try lia.
  - destruct (b_off s =? 0) eqn:E; constructor; [simpl; lia|constructor].
  - destruct (b_off s =? 0) eqn:E; simpl.
    + apply N.eqb_eq in E. f_equal. lia.
    + now rewrite N.eqb_refl.
  - intros p n z I. destruct (b_off s =? 0); simpl in I; [tauto|]. destruct I as [I|[]]. now inversion I.
Qed.

(* ---------- one event ---------- *)

Lemma contig_app : forall ws1 ws2 p q, contig p ws1 = Some q -> contig p (ws1 ++ ws2) = contig q ws2.
Proof.
  induction ws1 as [|[pos n z] r IH]; simpl; intros ws2 p q H.
  - now inversion H.
  - destruct (pos =? p); [now apply IH|discriminate].
Qed.

(* what one event does, whatever the state: no fuel problem, stores inside the block, contiguous from len *)
Lemma step_coded : forall s e, ev_wf e ->
  match step coded s e with
  | (Cont s1, ws, tr) => Forall wr_ok ws /\ contig (b_len s) ws = Some (b_len s1) /\
                        (b_alloc s = true -> b_alloc s1 = true) /\ (b_alloc s1 = false -> ws = [] /\ tr = [])
  | (Stop r, ws, tr) => r <> RFuel /\ Forall wr_ok ws /\
      match r with
      | ROk true len => b_alloc s = true /\ contig (b_len s) ws = Some (len + 1) /\ tr = [ARealloc (len + 1)]
      | ROk false len => b_alloc s = false /\ ws = [] /\ tr = [] /\ len = b_len s + b_off s
      | _ => True
      end
  end.
Proof.
  intros s e WF. destruct e; simpl.
  - repeat split; auto.
  - destruct (use_buf_coded s 4) as (s1 & ws & tr & U & A & O & Ln & Sp & F & C & _).
    rewrite U. simpl in WF. repeat split.
    + apply Forall_app. split; auto. constructor; [simpl; lia|constructor].
    + rewrite (contig_app _ _ _ _ C). simpl. now rewrite N.eqb_refl.
    + discriminate.
    + discriminate.
  - destruct (use_buf_coded s 4) as (s1 & ws & tr & U & A & O & Ln & Sp & F & C & _).
    rewrite U. repeat split; auto. discriminate.
  - destruct (use_buf_coded s u) as (s1 & ws & tr & U & A & O & Ln & Sp & F & C & _).
    rewrite U. repeat split.
    + apply Forall_app. split; auto. constructor; [simpl; lia|constructor].
    + rewrite (contig_app _ _ _ _ C). simpl. now rewrite N.eqb_refl.
    + discriminate.
    + discriminate.
  - repeat split; auto; discriminate.
  - repeat split; auto; discriminate.
  - destruct (b_alloc s) eqn:A.
    + split; [discriminate|]. split.
      * apply Forall_app. split.
        -- destruct (b_off s =? 0); constructor; [simpl; lia|constructor].
        -- constructor; [simpl; lia|constructor].
      * repeat split; auto. destruct (b_off s =? 0) eqn:E; simpl.
        -- apply N.eqb_eq in E. replace (b_len s + b_off s) with (b_len s) by lia. now rewrite N.eqb_refl.
        -- now rewrite !N.eqb_refl.
    + repeat split; auto. discriminate.
  - repeat split; auto; discriminate.
Qed.

(* ---------- the whole loop ---------- *)

Lemma run_coded : forall evs s, Forall ev_wf evs ->
  match run coded s evs with
  | (r, ws, tr) => r <> RFuel /\ Forall wr_ok ws /\
      match r with
      | ROk true len => contig (b_len s) ws = Some (len + 1) /\ exists tr1, tr = tr1 ++ [ARealloc (len + 1)]
      | ROk false len => b_alloc s = false /\ ws = [] /\ tr = []
      | _ => True
      end
  end.
Proof.
  induction evs as [|e rest IH]; intros s WF.
  - simpl. repeat split; auto; discriminate.
  - inversion WF as [|? ? We Wr]; subst. simpl run.
    pose proof (step_coded s e We) as S. destruct (step coded s e) as [[[s1|r] ws] tr].
    + destruct S as (F & C & A & E). specialize (IH s1 Wr).
      destruct (run coded s1 rest) as [[r ws2] tr2]. destruct IH as (NF & F2 & R).
      split; auto. split; [apply Forall_app; auto|].
      destruct r as [|[|] len|]; auto.
      * destruct R as (C2 & tr1 & ->). split.
        -- now rewrite (contig_app _ _ _ _ C).
        -- exists (tr ++ tr1). now rewrite app_assoc.
      * destruct R as (A2 & -> & ->).
        destruct (E A2) as (-> & ->). repeat split; auto.
        destruct (b_alloc s); auto. now rewrite A in A2.
    + destruct S as (NF & F & R). repeat split; auto.
      destruct r as [|[|] len|]; auto.
      * destruct R as (A & C & ->). split; auto. now exists [].
      * tauto.
Qed.

(* ---------- the statements ---------- *)

Theorem no_overflow : forall evs, Forall ev_wf evs ->
  match parse_value evs with (r, ws, _) => r <> RFuel /\ Forall wr_ok ws end.
Proof.
  intros evs WF. unfold parse_value. pose proof (run_coded evs init WF) as R.
  destruct (run coded init evs) as [[r ws] tr]. tauto.
Qed.

Theorem len_exact : forall evs, Forall ev_wf evs ->
  match parse_value evs with
  | (ROk true len, ws, tr) => contig 0 ws = Some (len + 1) /\ exists tr1, tr = tr1 ++ [ARealloc (len + 1)]
  | (ROk false len, ws, tr) => ws = [] /\ tr = []
  | _ => True
  end.
Proof.
  intros evs WF. unfold parse_value. pose proof (run_coded evs init WF) as R.
  destruct (run coded init evs) as [[r ws] tr]. destruct r as [|[|] len|]; auto; simpl in R; tauto.
Qed.

(* the seeded change C05-5: 200 pending plain bytes, then a CDATA section of 129 bytes: the block gets
   24 + 129 = 153 bytes and the 200 pending bytes are stored into it *)
Definition oneshot_witness : list ev := repeat (EPlain 1) 200 ++ [ECdata 129; EEnd].

Lemma oneshot_overflows :
  Forall ev_wf oneshot_witness /\
  match parse_value_oneshot oneshot_witness with (_, ws, _) => forallb wr_okb ws = false end /\
  match parse_value oneshot_witness with (_, ws, _) => forallb wr_okb ws = true end.
Proof.
  split; [|split; vm_compute; reflexivity].
  unfold oneshot_witness. apply Forall_app. split.
  - apply Forall_forall. intros e I. apply repeat_spec in I. subst. simpl. lia.
  - repeat constructor.
Qed.

Lemma wr_okb_ok : forall w, wr_okb w = true <-> wr_ok w.
Proof. intros [p n z]. simpl. apply N.leb_le. Qed.

(* ---------- sizes stay within the input length plus a constant (size_t cannot wrap) ---------- *)

Definition SLACK : N := 152.   (* BUFSIZE + BUFSIZE_STEP *)

Definition wr_size (w : wr) : N := match w with W _ _ z => z end.

Lemma use_buf_sizes : forall s need,
  (b_alloc s = true -> b_size s <= b_len s + b_off s + SLACK) ->
  match use_buf coded s need with
  | UB s1 ws tr =>
      b_size s1 <= b_len s + b_off s + need + SLACK /\
      (b_size s1 <= b_len s1 + SLACK \/ b_size s1 <= b_len s1 + need + BUFSIZE_STEP) /\
      (forall w, In w ws -> wr_size w <= b_size s1) /\
      (forall a, In a tr -> al_size a <= b_size s1)
  | UBFuel => True
  end.
Proof.
  intros s need I. unfold use_buf, coded.
  destruct (grow_coded_ok (b_len s + b_off s + need) (if b_alloc s then b_size s else BUFSIZE))
    as (s1 & tr & G & L & M & B & T).
  rewrite G. simpl. unfold SLACK, BUFSIZE, BUFSIZE_STEP in *.
  assert (Z0 : (if b_alloc s then b_size s else 24) <= b_len s + b_off s + 152).
  { destruct (b_alloc s); [auto|lia]. }
  split; [lia|]. split; [lia|]. split.
  - intros w Hw. destruct (b_off s =? 0); simpl in Hw; [tauto|]. destruct Hw as [<-|[]]. simpl. lia.
  - intros a Ha. apply in_app_or in Ha. destruct Ha as [Ha|Ha].
    + destruct (b_alloc s); simpl in Ha; [tauto|]. destruct Ha as [<-|[]]. simpl. lia.
    + apply in_rev in Ha. destruct (T a Ha) as (n & -> & Hn). simpl. lia.
Qed.

Definition sizes_le (ws : list wr) (tr : list al) (b : N) : Prop :=
  (forall w, In w ws -> wr_size w <= b) /\ (forall a, In a tr -> al_size a <= b).

Lemma step_sizes : forall s e, ev_wf e ->
  (b_alloc s = true -> b_size s <= b_len s + b_off s + SLACK) ->
  match step coded s e with
  | (Cont s1, ws, tr) =>
      (b_alloc s1 = true -> b_size s1 <= b_len s1 + b_off s1 + SLACK) /\
      b_len s1 + b_off s1 <= b_len s + b_off s + ev_bytes e /\
      sizes_le ws tr (b_len s + b_off s + ev_bytes e + SLACK)
  | (Stop _, ws, tr) => sizes_le ws tr (b_len s + b_off s + ev_bytes e + SLACK)
  end.
Proof.
  intros s e WF I. unfold sizes_le. destruct e; simpl step.
  - simpl. split; [intro A; specialize (I A); lia|]. split; [lia|]. split; intros ? [].
  - pose proof (use_buf_sizes s 4 I) as U. destruct (use_buf coded s 4) as [s1 ws tr|] eqn:E.
    + destruct U as (U1 & U2 & U3 & U4).
      assert (L : b_len s1 = b_len s + b_off s).
      { unfold use_buf in E. destruct (coded _ _ _ _) as [[? ?]|]; inversion E; reflexivity. }
      simpl in *. unfold SLACK, BUFSIZE_STEP in *. split; [intros _; lia|]. split; [lia|]. split.
      * intros w Hw. apply in_app_or in Hw. destruct Hw as [Hw|[<-|[]]]; [specialize (U3 w Hw)|simpl]; lia.
      * intros a Ha. specialize (U4 a Ha). lia.
    + simpl. split; intros ? [].
  - pose proof (use_buf_sizes s 4 I) as U. destruct (use_buf coded s 4) as [s1 ws tr|] eqn:E.
    + destruct U as (U1 & U2 & U3 & U4).
      assert (L : b_len s1 = b_len s + b_off s).
      { unfold use_buf in E. destruct (coded _ _ _ _) as [[? ?]|]; inversion E; reflexivity. }
      simpl in *. unfold SLACK, BUFSIZE_STEP in *. split.
      * intros w Hw. specialize (U3 w Hw). lia.
      * intros a Ha. apply in_app_or in Ha. destruct Ha as [Ha|[<-|[]]]; [specialize (U4 a Ha)|simpl]; lia.
    + simpl. split; intros ? [].
  - pose proof (use_buf_sizes s u I) as U. destruct (use_buf coded s u) as [s1 ws tr|] eqn:E.
    + destruct U as (U1 & U2 & U3 & U4).
      assert (L : b_len s1 = b_len s + b_off s).
      { unfold use_buf in E. destruct (coded _ _ _ _) as [[? ?]|]; inversion E; reflexivity. }
      simpl in *. unfold SLACK, BUFSIZE_STEP in *. split; [intros _; lia|]. split; [lia|]. split.
      * intros w Hw. apply in_app_or in Hw. destruct Hw as [Hw|[<-|[]]]; [specialize (U3 w Hw)|simpl]; lia.
      * intros a Ha. specialize (U4 a Ha). lia.
    + simpl. split; intros ? [].
  - simpl. split; [intros ? []|]. intros a Ha. unfold free_tr in Ha. destruct (b_alloc s); simpl in Ha; [|tauto].
    destruct Ha as [<-|[]]. simpl. lia.
  - simpl. split; [intros ? []|]. intros a Ha. unfold free_tr in Ha. destruct (b_alloc s); simpl in Ha; [|tauto].
    destruct Ha as [<-|[]]. simpl. lia.
  - destruct (b_alloc s); simpl; unfold SLACK.
    + split.
      * intros w Hw. apply in_app_or in Hw. destruct Hw as [Hw|[<-|[]]]; [|simpl; lia].
        destruct (b_off s =? 0); simpl in Hw; [tauto|]. destruct Hw as [<-|[]]. simpl. lia.
      * intros a [<-|[]]. simpl. lia.
    + split; intros ? [].
  - simpl. split; [intros ? []|]. intros a Ha. unfold free_tr in Ha. destruct (b_alloc s); simpl in Ha; [|tauto].
    destruct Ha as [<-|[]]. simpl. lia.
Qed.

Lemma run_sizes : forall evs s, Forall ev_wf evs ->
  (b_alloc s = true -> b_size s <= b_len s + b_off s + SLACK) ->
  match run coded s evs with (_, ws, tr) => sizes_le ws tr (b_len s + b_off s + evs_bytes evs + SLACK) end.
Proof.
  induction evs as [|e rest IH]; intros s WF I.
  - simpl. unfold sizes_le. split; [intros ? []|]. intros a Ha. unfold free_tr in Ha.
    destruct (b_alloc s); simpl in Ha; [|tauto]. destruct Ha as [<-|[]]. simpl. lia.
  - inversion WF as [|? ? We Wr]; subst. simpl run. pose proof (step_sizes s e We I) as S.
    destruct (step coded s e) as [[[s1|r] ws] tr].
    + destruct S as (I1 & Le & (S1 & S2)). specialize (IH s1 Wr I1).
      destruct (run coded s1 rest) as [[r ws2] tr2]. destruct IH as (R1 & R2).
      simpl evs_bytes. split.
      * intros w Hw. apply in_app_or in Hw. destruct Hw as [Hw|Hw]; [specialize (S1 w Hw)|specialize (R1 w Hw)]; lia.
      * intros a Ha. apply in_app_or in Ha. destruct Ha as [Ha|Ha]; [specialize (S2 a Ha)|specialize (R2 a Ha)]; lia.
    + destruct S as (S1 & S2). simpl evs_bytes. split.
      * intros w Hw. specialize (S1 w Hw). lia.
      * intros a Ha. specialize (S2 a Ha). lia.
Qed.

Theorem size_bounded : forall evs, Forall ev_wf evs ->
  match parse_value evs with
  | (_, ws, tr) => (forall w, In w ws -> wr_size w <= evs_bytes evs + SLACK) /\
                   (forall a, In a tr -> al_size a <= evs_bytes evs + SLACK)
  end.
Proof.
  intros evs WF. unfold parse_value. pose proof (run_sizes evs init WF) as R.
  destruct (run coded init evs) as [[r ws] tr]. apply R. discriminate.
Qed.

(* ---------- the allocator calls are balanced (no leak, no double free) ---------- *)

Definition is_malloc (a : al) : bool := match a with AMalloc _ => true | _ => false end.
Definition is_free (a : al) : bool := match a with AFree => true | _ => false end.
Definition mallocs (tr : list al) : nat := length (filter is_malloc tr).
Definition frees (tr : list al) : nat := length (filter is_free tr).

Lemma mallocs_app : forall a b, mallocs (a ++ b) = (mallocs a + mallocs b)%nat.
Proof. intros. unfold mallocs. now rewrite filter_app, app_length. Qed.
Lemma frees_app : forall a b, frees (a ++ b) = (frees a + frees b)%nat.
Proof. intros. unfold frees. now rewrite filter_app, app_length. Qed.

Lemma reallocs_only : forall tr, (forall a, In a tr -> exists n, a = ARealloc n) -> mallocs tr = 0%nat /\ frees tr = 0%nat.
Proof.
  induction tr as [|a r IH]; intros H; [split; reflexivity|].
  destruct (H a (or_introl eq_refl)) as (n & ->).
  destruct IH as (I1 & I2); [intros b Hb; apply H; now right|].
  unfold mallocs, frees in *. simpl. auto.
Qed.

Definition held (s : st) : nat := if b_alloc s then 1%nat else 0%nat.

Lemma use_buf_calls : forall s need,
  match use_buf coded s need with
  | UB s1 _ tr => (held s + mallocs tr = 1)%nat /\ frees tr = 0%nat /\ b_alloc s1 = true
  | UBFuel => True
  end.
Proof.
  intros s need. unfold use_buf, coded.
  destruct (grow_coded_ok (b_len s + b_off s + need) (if b_alloc s then b_size s else BUFSIZE))
    as (s1 & tr & G & L & M & B & T).
  rewrite G. rewrite mallocs_app, frees_app.
  destruct (reallocs_only (rev tr)) as (R1 & R2).
  { intros a Ha. apply in_rev in Ha. destruct (T a Ha) as (n & -> & _). now exists n. }
  rewrite R1, R2. unfold held. destruct (b_alloc s); simpl; auto.
Qed.

Lemma step_calls : forall s e,
  match step coded s e with
  | (Cont s1, _, tr) => (held s + mallocs tr = held s1)%nat /\ frees tr = 0%nat /\ (b_alloc s1 = false -> tr = [])
  | (Stop RErr, _, tr) => (held s + mallocs tr = frees tr)%nat /\ (frees tr <= 1)%nat
  | (Stop (ROk true _), _, tr) => (held s + mallocs tr = 1)%nat /\ frees tr = 0%nat
  | (Stop (ROk false _), _, tr) => tr = [] /\ b_alloc s = false
  | (Stop RFuel, _, _) => True
  end.
Proof.
  intros s e. destruct e; simpl step.
  - unfold held, mallocs, frees. simpl. repeat split; auto.
  - pose proof (use_buf_calls s 4) as U. destruct (use_buf coded s 4) as [s1 ws tr|]; auto.
    destruct U as (U1 & U2 & U3). unfold held at 2. simpl. repeat split; auto. discriminate.
  - pose proof (use_buf_calls s 4) as U. destruct (use_buf coded s 4) as [s1 ws tr|]; auto.
    destruct U as (U1 & U2 & U3). rewrite mallocs_app, frees_app. change (mallocs [AFree]) with 0%nat. change (frees [AFree]) with 1%nat. lia.
  - pose proof (use_buf_calls s u) as U. destruct (use_buf coded s u) as [s1 ws tr|]; auto.
    destruct U as (U1 & U2 & U3). unfold held at 2. simpl. repeat split; auto. discriminate.
  - unfold free_tr, held, mallocs, frees. destruct (b_alloc s); simpl; lia.
  - unfold free_tr, held, mallocs, frees. destruct (b_alloc s); simpl; lia.
  - unfold held, mallocs, frees. destruct (b_alloc s); simpl; auto.
  - unfold free_tr, held, mallocs, frees. destruct (b_alloc s); simpl; lia.
Qed.

Lemma run_calls : forall evs s,
  match run coded s evs with
  | (RErr, _, tr) => (held s + mallocs tr = frees tr)%nat /\ (frees tr <= 1)%nat
  | (ROk true _, _, tr) => (held s + mallocs tr = 1)%nat /\ frees tr = 0%nat
  | (ROk false _, _, tr) => tr = [] /\ b_alloc s = false
  | (RFuel, _, _) => True
  end.
Proof.
  induction evs as [|e rest IH]; intros s.
  - simpl. unfold free_tr, held, mallocs, frees. destruct (b_alloc s); simpl; lia.
  - simpl run. pose proof (step_calls s e) as S. destruct (step coded s e) as [[[s1|r] ws] tr].
    + destruct S as (S1 & S2 & S3). specialize (IH s1). destruct (run coded s1 rest) as [[r ws2] tr2].
      destruct r as [|[|] len|]; auto; rewrite ?mallocs_app, ?frees_app; try lia.
      destruct IH as (-> & A1). rewrite (S3 A1). split; auto.
      rewrite (S3 A1) in S1. unfold held, mallocs in S1. simpl in S1. rewrite A1 in S1.
      destruct (b_alloc s); [discriminate|reflexivity].
    + destruct r as [|[|] len|]; auto.
Qed.

Theorem calls_balanced : forall evs,
  match parse_value evs with
  | (RErr, _, tr) => mallocs tr = frees tr /\ (frees tr <= 1)%nat
  | (ROk true _, _, tr) => mallocs tr = 1%nat /\ frees tr = 0%nat
  | (ROk false _, _, tr) => tr = []
  | (RFuel, _, _) => True
  end.
Proof.
  intros evs. unfold parse_value. pose proof (run_calls evs init) as R.
  destruct (run coded init evs) as [[r ws] tr]. destruct r as [|[|] len|]; simpl in R; tauto.
Qed.
