(* PathQuoteP.v — proofs about PathQuote: the value lyd_path() prints in a predicate is read back
   unchanged by the literal rule of the XPath tokenizer unless it contains both quote characters. *)
From LY Require Import Base Utf8 PathQuote.
From Coq Require Import ZifyBool ZifyNat ZifyN.
Local Open Scope N_scope.

Lemma pq_has_cons b x s : pq_has b (x :: s) = false <-> x <> b /\ pq_has b s = false.
Proof.
  unfold pq_has. cbn [existsb]. rewrite orb_false_iff, N.eqb_neq. split; intros [H1 H2]; split; auto.
Qed.

Lemma lit_len_app q v r : forall n,
  pq_has q v = false -> lit_len q (v ++ q :: r) n = Some (S (n + length v)).
Proof.
  induction v as [|x v IH]; intros n H; cbn [app lit_len length].
  - rewrite N.eqb_refl. f_equal. lia.
  - apply pq_has_cons in H. destruct H as [H1 H2]. apply N.eqb_neq in H1. rewrite H1, IH by exact H2.
    f_equal. lia.
Qed.

Lemma firstn_app_len {A} (c r : list A) : firstn (length c) (c ++ r) = c.
Proof. induction c; cbn; congruence. Qed.
Lemma skipn_app_len {A} (c r : list A) : skipn (length c) (c ++ r) = r.
Proof. induction c; cbn; auto. Qed.

Lemma tok_literal_quoted q v r :
  q = 39 \/ q = 34 -> pq_has q v = false -> tok_literal (q :: v ++ q :: r) = Some (S (S (length v))).
Proof.
  intros Hq Hv. unfold tok_literal.
  assert (E : (q =? 39) || (q =? 34) = true) by (destruct Hq; subst; reflexivity).
  rewrite E, lit_len_app by exact Hv. reflexivity.
Qed.

Lemma quoted_parts (q : N) (v r : bytes) :
  firstn (length v) (skipn 1%nat (q :: v ++ q :: r)) = v /\ skipn (S (S (length v))) (q :: v ++ q :: r) = r.
Proof.
  split.
  - change (skipn 1%nat (q :: v ++ q :: r)) with (v ++ q :: r). apply firstn_app_len.
  - change (skipn (S (S (length v))) (q :: v ++ q :: r)) with (skipn (S (length v)) (v ++ q :: r)).
    replace (S (length v)) with (length (v ++ [q])) by (rewrite app_length; cbn [length]; lia).
    replace (v ++ q :: r) with ((v ++ [q]) ++ r) by (rewrite <- app_assoc; reflexivity).
    apply skipn_app_len.
Qed.

Lemma path_literal_quoted q v r :
  q = 39 \/ q = 34 -> pq_has q v = false -> path_literal (q :: v ++ q :: r) = Some (v, r).
Proof.
  intros Hq Hv. unfold path_literal. rewrite tok_literal_quoted by assumption.
  destruct (quoted_parts q v r) as [E1 E2].
  replace (S (S (length v)) - 2)%nat with (length v) by lia. rewrite E1, E2. reflexivity.
Qed.

Lemma xpath_literal_quoted q v r :
  q = 39 \/ q = 34 -> pq_has q v = false -> xpath_literal (q :: v ++ q :: r) = Some (v, r).
Proof.
  intros Hq Hv. unfold xpath_literal. rewrite tok_literal_quoted by assumption.
  destruct (quoted_parts q v r) as [E1 E2].
  replace (S (S (length v)) - 2)%nat with (length v) by lia. rewrite E1, E2.
  destruct v; reflexivity.
Qed.

Definition one_quote_kind (v : bytes) : bool := negb (pq_has 39 v && pq_has 34 v).

Lemma quote_for_ok v :
  one_quote_kind v = true -> (quote_for v = 39 \/ quote_for v = 34) /\ pq_has (quote_for v) v = false.
Proof.
  unfold one_quote_kind, quote_for. destruct (pq_has 39 v) eqn:E1; destruct (pq_has 34 v) eqn:E2; cbn;
    intro H; try discriminate; auto.
Qed.

Lemma name_start_not_dot c : is_name_start c = true -> (c =? 46) = false.
Proof.
  unfold is_name_start. intro H. destruct (c =? 46) eqn:E; [|reflexivity].
  apply N.eqb_eq in E. subst c. discriminate H.
Qed.

Lemma span_name_app n t : forall acc,
  forallb is_name_byte n = true -> span_name (n ++ 61 :: t) acc = (rev acc ++ n, 61 :: t).
Proof.
  induction n as [|x n IH]; intros acc H; cbn [app span_name].
  - change (is_name_byte 61) with false. cbn iota. rewrite app_nil_r. reflexivity.
  - cbn [forallb] in H. apply andb_true_iff in H. destruct H as [H1 H2]. rewrite H1, IH by exact H2.
    cbn [rev]. rewrite <- app_assoc. reflexivity.
Qed.

Lemma name_ok_bytes n : name_ok n = true -> forallb is_name_byte n = true.
Proof.
  destruct n as [|c n]; [discriminate|]. cbn [name_ok forallb]. intro H.
  apply andb_true_iff in H. destruct H as [H1 H2]. rewrite H2, andb_true_r.
  unfold is_name_byte. rewrite H1. reflexivity.
Qed.

(* a literal rule that reads quoted values back *)
Definition reads_back (lit : bytes -> option (bytes * bytes)) : Prop :=
  forall q v r, q = 39 \/ q = 34 -> pq_has q v = false -> lit (q :: v ++ q :: r) = Some (v, r).

Lemma parse_list_pred lit name v rest :
  reads_back lit -> name_ok name = true -> one_quote_kind v = true ->
  parse_pred lit (list_pred name v ++ rest) = Some (Some name, v, rest).
Proof.
  intros Hlit Hn Hv. destruct (quote_for_ok v Hv) as [Hq Hnq].
  unfold list_pred, parse_pred. rewrite <- !app_assoc. cbn [app].
  pose proof (name_ok_bytes _ Hn) as Hb.
  destruct name as [|c name]; [discriminate|]. cbn [app].
  assert (Hc : is_name_start c = true).
  { cbn [name_ok] in Hn. apply andb_true_iff in Hn. apply Hn. }
  assert (Ematch : forall (A : Type) (a : bytes -> A) (b : A) (t : bytes), (match c :: t with 46 :: u => a u | _ => b end) = b).
  { intros A a b t. pose proof (name_start_not_dot c Hc) as E. apply N.eqb_neq in E.
    destruct c as [|p]; [reflexivity|]. repeat (destruct p as [p|p|]; try reflexivity). congruence. }
  rewrite Ematch.
  change (c :: name ++ 61 :: quote_for v :: v ++ quote_for v :: 93 :: rest)
    with ((c :: name) ++ 61 :: quote_for v :: v ++ quote_for v :: 93 :: rest).
  rewrite span_name_app by exact Hb. cbn [rev app]. rewrite Hn. cbn [negb].
  rewrite (Hlit _ _ _ Hq Hnq). reflexivity.
Qed.

Lemma parse_leaflist_pred lit v rest :
  reads_back lit -> one_quote_kind v = true ->
  parse_pred lit (leaflist_pred v ++ rest) = Some (None, v, rest).
Proof.
  intros Hlit Hv. destruct (quote_for_ok v Hv) as [Hq Hnq].
  unfold leaflist_pred, parse_pred. rewrite <- !app_assoc. cbn [app negb].
  rewrite (Hlit _ _ _ Hq Hnq). reflexivity.
Qed.

Lemma beq_bytes_refl a : beq_bytes a a = true.
Proof. apply beq_bytes_eq. reflexivity. Qed.

Theorem literal_roundtrip name v :
  name_ok name = true -> one_quote_kind v = true ->
  (forall rest, parse_pred path_literal (list_pred name v ++ rest) = Some (Some name, v, rest)) /\
  (forall rest, parse_pred xpath_literal (list_pred name v ++ rest) = Some (Some name, v, rest)) /\
  (forall rest, parse_pred path_literal (leaflist_pred v ++ rest) = Some (None, v, rest)) /\
  (forall rest, parse_pred xpath_literal (leaflist_pred v ++ rest) = Some (None, v, rest)) /\
  pred_finds path_literal (Some name) v (list_pred name v) = true /\
  pred_finds xpath_literal (Some name) v (list_pred name v) = true /\
  pred_finds path_literal None v (leaflist_pred v) = true /\
  pred_finds xpath_literal None v (leaflist_pred v) = true.
Proof.
  intros Hn Hv.
  assert (Hp : reads_back path_literal) by exact path_literal_quoted.
  assert (Hx : reads_back xpath_literal) by exact xpath_literal_quoted.
  repeat split; try (intro rest).
  - apply parse_list_pred; assumption.
  - apply parse_list_pred; assumption.
  - apply parse_leaflist_pred; assumption.
  - apply parse_leaflist_pred; assumption.
  - unfold pred_finds. rewrite <- (app_nil_r (list_pred name v)), parse_list_pred by assumption.
    cbn [beq_opt_name]. rewrite !beq_bytes_refl. reflexivity.
  - unfold pred_finds. rewrite <- (app_nil_r (list_pred name v)), parse_list_pred by assumption.
    cbn [beq_opt_name]. rewrite !beq_bytes_refl. reflexivity.
  - unfold pred_finds. rewrite <- (app_nil_r (leaflist_pred v)), parse_leaflist_pred by assumption.
    cbn [beq_opt_name]. rewrite !beq_bytes_refl. reflexivity.
  - unfold pred_finds. rewrite <- (app_nil_r (leaflist_pred v)), parse_leaflist_pred by assumption.
    cbn [beq_opt_name]. rewrite !beq_bytes_refl. reflexivity.
Qed.

(* the value a'b[dq]c ([dq] = double quote): printed between double quotes, the literal ends at the inner
   double quote and the token after it is not the closing bracket *)
Definition both_quotes_value : bytes := [97; 39; 98; 34; 99].
Lemma both_quotes_refuted :
  one_quote_kind both_quotes_value = false /\ all_checkutf8 both_quotes_value = true /\
  parse_pred path_literal (list_pred [107] both_quotes_value) = None /\
  parse_pred xpath_literal (list_pred [107] both_quotes_value) = None /\
  parse_pred path_literal (leaflist_pred both_quotes_value) = None /\
  parse_pred xpath_literal (leaflist_pred both_quotes_value) = None /\
  path_literal (skipn 3 (list_pred [107] both_quotes_value)) = Some ([97; 39; 98], [99; 34; 93]).
Proof. vm_compute. repeat split. Qed.

(* ---------- ly_parse_instance_predicate() (no caller in the library): its quoted-string scan treats a
   backslash before the closing quote as an escape, so a value ending in a backslash is not read back ---------- *)
Lemma inst_scan_app q v r : forall prev acc,
  pq_has q v = false -> last (prev :: v) 0 <> 92 ->
  inst_scan q prev (v ++ q :: r) acc = Some (rev acc ++ v, r).
Proof.
  induction v as [|x v IH]; intros prev acc Hv Hl; cbn [app inst_scan].
  - cbn [last] in Hl. apply N.eqb_neq in Hl. rewrite N.eqb_refl, Hl. cbn [negb andb]. rewrite app_nil_r. reflexivity.
  - apply pq_has_cons in Hv. destruct Hv as [H1 H2]. apply N.eqb_neq in H1. rewrite H1. cbn [andb].
    rewrite IH; [cbn [rev]; rewrite <- app_assoc; reflexivity|exact H2|].
    change (last (prev :: x :: v) 0) with (last (x :: v) 0) in Hl. exact Hl.
Qed.

Theorem inst_quoted_roundtrip v r :
  one_quote_kind v = true -> last v 0 <> 92 ->
  inst_quoted (quote_for v :: v ++ quote_for v :: r) = Some (v, r).
Proof.
  intros Hv Hl. destruct (quote_for_ok v Hv) as [Hq Hnq]. unfold inst_quoted.
  assert (E : (quote_for v =? 39) || (quote_for v =? 34) = true) by (destruct Hq as [-> | ->]; reflexivity).
  rewrite E. apply (inst_scan_app _ _ _ _ [] Hnq).
  destruct v as [|x v]; [cbn [last]; destruct Hq as [-> | ->]; discriminate|exact Hl].
Qed.

Lemma inst_quoted_backslash_refuted :
  exists v, one_quote_kind v = true /\ all_checkutf8 v = true /\
            inst_quoted (quote_for v :: v ++ [quote_for v; 93]) = None /\
            path_literal (quote_for v :: v ++ [quote_for v; 93]) = Some (v, [93]).
Proof. exists [97; 92]. vm_compute. repeat split. Qed.
