(* JsonTextP.v — proofs about JsonText: what json_print_string() prints, lyjson_string() reads back. *)
From LY Require Import Base Utf8 Utf8P XmlText XmlTextP JsonText.
From LY.Gen Require Consts.
From Coq Require Import ZifyBool ZifyNat ZifyN.
Local Open Scope N_scope.

(* T1 obligation: the scraped switch of json_print_string() is the one the proofs are about *)
Lemma json_esc_table_expected :
  Consts.json_esc_table = [(34, [92; 34]); (92, [92; 92]); (13, [92; 114]); (9, [92; 116])].
Proof. reflexivity. Qed.

Lemma json_esc_byte_spec b :
  json_esc_byte b =
    if b =? 34 then [92; 34]
    else if b =? 92 then [92; 92]
    else if b =? 13 then [92; 114]
    else if b =? 9 then [92; 116]
    else if is_cntrl b then
      [92; 117; hexdig_up ((b / 4096) mod 16); hexdig_up ((b / 256) mod 16);
       hexdig_up ((b / 16) mod 16); hexdig_up (b mod 16)]
    else [b].
Proof.
  unfold json_esc_byte. rewrite json_esc_table_expected. cbn [jesc_lookup].
  rewrite (N.eqb_sym 34 b), (N.eqb_sym 92 b), (N.eqb_sym 13 b), (N.eqb_sym 9 b).
  destruct (b =? 34); [reflexivity|]. destruct (b =? 92); [reflexivity|].
  destruct (b =? 13); [reflexivity|]. destruct (b =? 9); reflexivity.
Qed.

Lemma json_esc_body_cons b s :
  b <> 0 -> json_esc_body (b :: s) = json_esc_byte b ++ json_esc_body s.
Proof. intro H. cbn [json_esc_body]. apply N.eqb_neq in H. rewrite H. reflexivity. Qed.

(* bytes with the top bit set are written unchanged *)
Lemma json_esc_body_high c r :
  Forall (fun b => 128 <= b) c -> json_esc_body (c ++ r) = c ++ json_esc_body r.
Proof.
  induction 1 as [|b c Hb _ IH]; [reflexivity|].
  cbn [app]. rewrite json_esc_body_cons by lia. rewrite IH, json_esc_byte_spec.
  assert (E34 : (b =? 34) = false) by lia. assert (E92 : (b =? 92) = false) by lia.
  assert (E13 : (b =? 13) = false) by lia. assert (E9 : (b =? 9) = false) by lia.
  assert (Ec : is_cntrl b = false) by (unfold is_cntrl; lia).
  rewrite E34, E92, E13, E9, Ec. reflexivity.
Qed.

(* ---------- bit facts on unbounded N ---------- *)
Lemma land128_small : N_all_below 128 (fun a => N.land a 128 =? 0) = true.
Proof. vm_cast_no_check (eq_refl true). Qed.

Lemma land128_ge a : (N.land a 128 =? 0) = false -> 128 <= a.
Proof.
  intro H. destruct (N.lt_ge_cases a 128) as [Hlt|Hge]; [|exact Hge].
  pose proof (N_all_below_spec _ _ land128_small a Hlt) as E. cbn beta in E. congruence.
Qed.

Lemma land192_small : N_all_below 128 (fun a => negb (N.land a 192 =? 128)) = true.
Proof. vm_cast_no_check (eq_refl true). Qed.

Lemma cont_ge b : is_cont b = true -> 128 <= b.
Proof.
  unfold is_cont. intro H. destruct (N.lt_ge_cases b 128) as [Hlt|Hge]; [|exact Hge].
  pose proof (N_all_below_spec _ _ land192_small b Hlt) as E. cbn beta in E. rewrite H in E. discriminate E.
Qed.

Lemma lor_lt_pow2 a b n : a < 2 ^ n -> b < 2 ^ n -> N.lor a b < 2 ^ n.
Proof.
  intros Ha Hb.
  destruct (N.eq_dec a 0) as [->|Hna]; [rewrite N.lor_0_l; exact Hb|].
  destruct (N.eq_dec b 0) as [->|Hnb]; [rewrite N.lor_0_r; exact Ha|].
  assert (Hl : N.lor a b <> 0).
  { intro E. apply N.lor_eq_0_iff in E. tauto. }
  apply N.log2_lt_pow2; [lia|]. rewrite N.log2_lor.
  apply N.max_lub_lt; apply N.log2_lt_pow2; lia.
Qed.

(* the value of an accepted two-byte sequence is below 2^11 *)
Lemma two_byte_value_bound c a1 :
  N.lor (N.shiftl (N.land c 31) 6) (N.land a1 63) < 2048.
Proof.
  change 2048 with (2 ^ 11). apply lor_lt_pow2.
  - rewrite N.shiftl_mul_pow2. change 31 with (N.ones 5). rewrite N.land_ones.
    pose proof (N.mod_upper_bound c (2 ^ 5)). change (2 ^ 5) with 32 in *. change (2 ^ 6) with 64.
    change (2 ^ 11) with 2048. lia.
  - change 63 with (N.ones 6). rewrite N.land_ones.
    pose proof (N.mod_upper_bound a1 (2 ^ 6)). change (2 ^ 6) with 64 in *. change (2 ^ 11) with 2048. lia.
Qed.

(* ---------- shape of what ly_getutf8 accepts, in the form the JSON proofs need ----------
   one accepted character: its bytes [c], independent of what follows; either one byte that is its
   own value, or bytes that all have the top bit set and a value in 0x80 .. 0x10FFFF *)
Lemma getutf8_inv_json s cp u :
  getutf8 s = Some (cp, u) ->
  exists c r, s = c ++ r /\ length c = u /\
    (forall r', getutf8 (c ++ r') = Some (cp, u)) /\
    ((c = [cp] /\ ctrl_bad cp = false /\ (N.land cp 128 =? 0) = true) \/
     (c <> [] /\ Forall (fun b => 128 <= b) c /\ 128 <= cp <= 1114111)).
Proof.
  unfold getutf8. destruct s as [|a s]; [cbn; discriminate|].
  cbn [rd0 nth].
  destruct (N.land a 128 =? 0) eqn:H1.
  { fold (ctrl_bad a). destruct (ctrl_bad a) eqn:Hc; [discriminate|].
    intro E; injection E as <- <-. exists [a], s. repeat split.
    - intro r'. cbn [app rd0 nth]. rewrite H1. fold (ctrl_bad a). rewrite Hc. reflexivity.
    - left. repeat split; assumption. }
  pose proof (land128_ge a H1) as Ha.
  destruct (N.land a 224 =? 192) eqn:H2.
  { destruct s as [|b s]; [cbn; discriminate|]. cbn [rd0 nth].
    destruct (is_cont b) eqn:Hb; cbn [negb]; [|discriminate].
    match goal with |- context[if ?c then None else _] => destruct c eqn:Hv end; [discriminate|].
    intro E; injection E as <- <-. exists [a;b], s. repeat split.
    - intro r'. cbn [app rd0 nth]. rewrite H1, H2, Hb. cbn [negb]. rewrite Hv. reflexivity.
    - right. split; [discriminate|]. split.
      + repeat constructor; [exact Ha|apply cont_ge; exact Hb].
      + pose proof (two_byte_value_bound a b). lia. }
  destruct (N.land a 240 =? 224) eqn:H3.
  { destruct s as [|b s]; [cbn; discriminate|]. cbn [rd0 nth].
    destruct (is_cont b) eqn:Hb; cbn [negb]; [|discriminate].
    destruct s as [|c s]; [cbn; discriminate|]. cbn [rd0 nth].
    destruct (is_cont c) eqn:Hc; cbn [negb]; [|discriminate].
    match goal with |- context[if ?c then None else _] => destruct c eqn:Hv end; [discriminate|].
    intro E; injection E as <- <-. exists [a;b;c], s. repeat split.
    - intro r'. cbn [app rd0 nth]. rewrite H1, H2, H3, Hb, Hc. cbn [negb]. rewrite Hv. reflexivity.
    - right. split; [discriminate|]. split.
      + repeat constructor; [exact Ha|apply cont_ge; exact Hb|apply cont_ge; exact Hc].
      + lia. }
  destruct (N.land a 248 =? 240) eqn:H4; [|discriminate].
  destruct s as [|b s]; [cbn; discriminate|]. cbn [rd0 nth].
  destruct (is_cont b) eqn:Hb; cbn [negb]; [|discriminate].
  destruct s as [|c s]; [cbn; discriminate|]. cbn [rd0 nth].
  destruct (is_cont c) eqn:Hc; cbn [negb]; [|discriminate].
  destruct s as [|d s]; [cbn; discriminate|]. cbn [rd0 nth].
  destruct (is_cont d) eqn:Hd; cbn [negb]; [|discriminate].
  match goal with |- context[if ?c then None else _] => destruct c eqn:Hv end; [discriminate|].
  intro E; injection E as <- <-. exists [a;b;c;d], s. repeat split.
  - intro r'. cbn [app rd0 nth]. rewrite H1, H2, H3, H4, Hb, Hc, Hd. cbn [negb]. rewrite Hv. reflexivity.
  - right. split; [discriminate|]. split.
    + repeat constructor; [exact Ha|apply cont_ge; exact Hb|apply cont_ge; exact Hc|apply cont_ge; exact Hd].
    + lia.
Qed.

(* ---------- single steps of the lexer on what the printer writes ---------- *)
Lemma jstep_quot f r acc : json_string_f (S f) (92 :: 34 :: r) acc = json_string_f f r (acc ++ [34]).
Proof. reflexivity. Qed.
Lemma jstep_bsl f r acc : json_string_f (S f) (92 :: 92 :: r) acc = json_string_f f r (acc ++ [92]).
Proof. reflexivity. Qed.
Lemma jstep_cr f r acc : json_string_f (S f) (92 :: 114 :: r) acc = json_string_f f r (acc ++ [13]).
Proof. reflexivity. Qed.
Lemma jstep_tab f r acc : json_string_f (S f) (92 :: 116 :: r) acc = json_string_f f r (acc ++ [9]).
Proof. reflexivity. Qed.
Lemma jstep_lf f r acc :
  json_string_f (S f) (92 :: 117 :: 48 :: 48 :: 48 :: 65 :: r) acc = json_string_f f r (acc ++ [10]).
Proof. reflexivity. Qed.
Lemma jstep_del f r acc :
  json_string_f (S f) (92 :: 117 :: 48 :: 48 :: 55 :: 70 :: r) acc = json_string_f f r (acc ++ [127]).
Proof. reflexivity. Qed.

(* a raw character: first byte a, accepted by ly_getutf8 with a value that is a JSON string char *)
Lemma jstep_raw f a t acc cp u :
  a <> 0 -> a <> 92 -> a <> 34 ->
  getutf8 (a :: t) = Some (cp, u) -> is_jsonstrchar cp = true ->
  json_string_f (S f) (a :: t) acc = json_string_f f (skipn u (a :: t)) (acc ++ firstn u (a :: t)).
Proof.
  intros H0 H92 H34 Hg Hj. cbn [json_string_f].
  apply N.eqb_neq in H0, H92, H34. rewrite H0, H92, H34, Hg, Hj. reflexivity.
Qed.

Lemma bytes_ok_app a b : bytes_ok (a ++ b) = bytes_ok a && bytes_ok b.
Proof. unfold bytes_ok. apply forallb_app. Qed.

(* the single bytes ly_getutf8 accepts that are real bytes are below 0x80 *)
Lemma land128_byte : N_all_below 256 (fun a => implb (N.land a 128 =? 0) (a <? 128)) = true.
Proof. vm_cast_no_check (eq_refl true). Qed.

Lemma json_string_roundtrip_f s :
  lexable s -> bytes_ok s = true ->
  forall rest fuel acc,
    (length (json_esc_body s) < fuel)%nat ->
    json_string_f fuel (json_esc_body s ++ 34 :: rest) acc = Ok (acc ++ s, rest).
Proof.
  induction 1 as [|s cp u Hg Hlex IH]; intros Hok rest fuel acc Hf.
  - destruct fuel as [|f]; [cbn in Hf; lia|].
    cbn [json_esc_body app json_string_f]. rewrite app_nil_r. reflexivity.
  - destruct (getutf8_inv_json _ _ _ Hg) as (c & r & -> & Hlen & Hind & Hshape).
    rewrite <- Hlen, skipn_app_len in Hlex, IH.
    rewrite bytes_ok_app in Hok. apply andb_true_iff in Hok. destruct Hok as [Hokc Hokr].
    specialize (IH Hokr).
    destruct fuel as [|f]; [lia|].
    destruct Hshape as [(-> & Hctrl & Hlow) | (Hne & Hhigh & Hcp)].
    + (* one byte below 0x80 *)
      cbn [length] in Hlen. subst u.
      assert (Hcp : cp < 128).
      { unfold bytes_ok in Hokc. cbn [forallb] in Hokc. unfold byte_ok in Hokc.
        assert (Hb : cp < 256) by lia.
        pose proof (N_all_below_spec _ _ land128_byte cp Hb) as E. cbn beta in E.
        rewrite Hlow in E. cbn [implb] in E. lia. }
      assert (Hnz : cp <> 0) by (intros ->; discriminate Hctrl).
      cbn [app] in Hf |- *. rewrite json_esc_body_cons in Hf |- * by exact Hnz.
      rewrite app_length in Hf. rewrite <- app_assoc.
      rewrite json_esc_byte_spec in Hf |- *.
      destruct (cp =? 34) eqn:E34.
      { apply N.eqb_eq in E34; subst cp. cbn [app length] in Hf |- *. rewrite jstep_quot.
        rewrite IH by lia. rewrite <- app_assoc. reflexivity. }
      destruct (cp =? 92) eqn:E92.
      { apply N.eqb_eq in E92; subst cp. cbn [app length] in Hf |- *. rewrite jstep_bsl.
        rewrite IH by lia. rewrite <- app_assoc. reflexivity. }
      destruct (cp =? 13) eqn:E13.
      { apply N.eqb_eq in E13; subst cp. cbn [app length] in Hf |- *. rewrite jstep_cr.
        rewrite IH by lia. rewrite <- app_assoc. reflexivity. }
      destruct (cp =? 9) eqn:E9.
      { apply N.eqb_eq in E9; subst cp. cbn [app length] in Hf |- *. rewrite jstep_tab.
        rewrite IH by lia. rewrite <- app_assoc. reflexivity. }
      destruct (is_cntrl cp) eqn:Ec.
      { (* the only control characters ly_getutf8 lets through here are LF and DEL *)
        assert (Hc : cp = 10 \/ cp = 127).
        { unfold is_cntrl in Ec. unfold ctrl_bad in Hctrl. lia. }
        destruct Hc as [-> | ->].
        - cbn [app length] in Hf |- *. change (json_string_f (S f) (92 :: 117 :: 48 :: 48 :: 48 :: 65 :: json_esc_body r ++ 34 :: rest) acc
            = Ok (acc ++ 10 :: r, rest)).
          rewrite jstep_lf. rewrite IH by (cbn [length] in Hf; lia). rewrite <- app_assoc. reflexivity.
        - cbn [app length] in Hf |- *. change (json_string_f (S f) (92 :: 117 :: 48 :: 48 :: 55 :: 70 :: json_esc_body r ++ 34 :: rest) acc
            = Ok (acc ++ 127 :: r, rest)).
          rewrite jstep_del. rewrite IH by (cbn [length] in Hf; lia). rewrite <- app_assoc. reflexivity. }
      (* raw byte *)
      cbn [app length] in Hf |- *.
      specialize (Hind (json_esc_body r ++ 34 :: rest)). cbn [app] in Hind.
      rewrite (jstep_raw f cp _ acc cp 1%nat); try assumption; try lia.
      * cbn [skipn firstn]. rewrite IH by lia. rewrite <- app_assoc. reflexivity.
      * unfold is_jsonstrchar. unfold is_cntrl in Ec. unfold ctrl_bad in Hctrl. lia.
    + (* a multi-byte character: all bytes have the top bit set and are written raw *)
      rewrite json_esc_body_high in Hf |- * by exact Hhigh.
      rewrite app_length in Hf. rewrite <- app_assoc.
      destruct c as [|a c']; [congruence|].
      pose proof (Forall_inv Hhigh) as Ha. cbn beta in Ha.
      specialize (Hind (json_esc_body r ++ 34 :: rest)).
      change ((a :: c') ++ json_esc_body r ++ 34 :: rest) with (a :: c' ++ json_esc_body r ++ 34 :: rest) in Hind |- *.
      rewrite (jstep_raw f a _ acc cp u); try assumption; try lia.
      * change (a :: c' ++ json_esc_body r ++ 34 :: rest) with ((a :: c') ++ json_esc_body r ++ 34 :: rest).
        rewrite <- Hlen, skipn_app_len, firstn_app_len.
        rewrite IH by (cbn [length] in Hf |- *; lia). rewrite <- app_assoc. reflexivity.
      * unfold is_jsonstrchar. lia.
Qed.

(* lyjson_string on the printed string minus its opening quote *)
Theorem json_string_roundtrip_body s rest :
  lexable s -> bytes_ok s = true ->
  json_string (json_esc_body s ++ 34 :: rest) = Ok (s, rest).
Proof.
  intros Hs Hok. unfold json_string.
  rewrite (json_string_roundtrip_f s Hs Hok rest _ []).
  - reflexivity.
  - rewrite app_length. cbn [length]. lia.
Qed.

(* the token as the parser meets it: opening quote, lyjson_string, whatever follows *)
Theorem json_quoted_roundtrip s rest :
  lexable s -> bytes_ok s = true ->
  json_quoted (json_esc s ++ rest) = Ok (s, rest).
Proof.
  intros Hs Hok. unfold json_esc, json_quoted. cbn [app]. rewrite N.eqb_refl.
  rewrite <- app_assoc. cbn [app]. apply json_string_roundtrip_body; assumption.
Qed.

(* [bytes_ok] cannot be dropped from the statement about the model: a list element that is not a
   byte (no C input corresponds to it) is its own value for the model of ly_getutf8 and can be
   above 0x10FFFF, which is_jsonstrchar rejects. *)
Lemma json_quoted_roundtrip_nonbyte_refuted :
  exists s rest, lexable s /\ json_quoted (json_esc s ++ rest) <> Ok (s, rest).
Proof.
  exists [2097152], []. split.
  - apply lx_cons with (cp := 2097152) (u := 1%nat); [reflexivity|]. cbn [skipn]. constructor.
  - vm_compute. discriminate.
Qed.

(* every accepted character's RFC 3629 encoding consists of bytes *)
Definition enc_bytes_ok (cp : N) : bool := bytes_ok (utf8_encode cp).
Lemma enc_bytes_ok_all : N_all_below 1114112 enc_bytes_ok = true.
Proof. vm_cast_no_check (eq_refl true). Qed.

Lemma bytes_ok_encoded cps :
  forallb getutf8_accepts_char cps = true -> bytes_ok (flat_map utf8_encode cps) = true.
Proof.
  induction cps as [|cp cps IH]; intro H; [reflexivity|].
  cbn [forallb] in H. apply andb_true_iff in H. destruct H as [H1 H2].
  cbn [flat_map]. rewrite bytes_ok_app, (IH H2), andb_true_r.
  assert (Hlt : cp < 1114112) by (unfold getutf8_accepts_char, is_yang_char, is_scalar in H1; lia).
  exact (N_all_below_spec _ _ enc_bytes_ok_all cp Hlt).
Qed.

Corollary json_quoted_roundtrip_encoded cps rest :
  forallb getutf8_accepts_char cps = true ->
  let s := flat_map utf8_encode cps in
  json_quoted (json_esc s ++ rest) = Ok (s, rest).
Proof.
  intros H s. apply json_quoted_roundtrip; [apply lexable_encoded; exact H|apply bytes_ok_encoded; exact H].
Qed.

(* non-vacuity: every escape class, LF and DEL (printed as \u000A, \u007F), 2-, 3-, 4-byte characters *)
Example json_roundtrip_example :
  let cps := [97; 34; 92; 47; 13; 9; 10; 127; 32; 233; 8364; 128512; 91; 93] in
  forallb getutf8_accepts_char cps = true /\
  json_quoted (json_esc (flat_map utf8_encode cps) ++ [44; 34; 120; 34]) =
    Ok (flat_map utf8_encode cps, [44; 34; 120; 34]).
Proof. vm_compute. split; reflexivity. Qed.

(* ---------- where lyjson_string departs from RFC 8259 (as coded; see StdText for the RFC reader) ---------- *)
(* the four characters after \u are not checked to be hex digits: \uZZZZ is read as U+3333 *)
Example json_u_nonhex_accepted :
  json_string [92; 117; 90; 90; 90; 90; 34] = Ok ([227; 140; 179], []).
Proof. vm_compute. reflexivity. Qed.
(* ... and they may run over the closing quote: \u12 quote x y z quote is read as U+10D1 y z *)
Example json_u_eats_quote :
  json_string [92; 117; 49; 50; 34; 120; 121; 122; 34] = Ok ([225; 131; 145; 121; 122], []).
Proof. vm_compute. reflexivity. Qed.
(* \b, \f and \u0000..\u001F other than TAB/LF/CR are rejected (ly_pututf8) *)
Example json_backspace_rejected : json_string [92; 98; 34] = Err E_CHARVAL.
Proof. vm_compute. reflexivity. Qed.
(* surrogate pairs are rejected: \uD83D\uDE00 *)
Example json_surrogate_pair_rejected :
  json_string [92; 117; 68; 56; 51; 68; 92; 117; 68; 69; 48; 48; 34] = Err E_CHARVAL.
Proof. vm_compute. reflexivity. Qed.
