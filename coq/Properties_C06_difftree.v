(* Properties_C06_difftree.v -- property C06 (applying the diff of two trees to the first yields the second) at TREE
   level for everything that is not user-ordered: leaves, containers (non-presence / presence), choices and cases,
   system-ordered lists and leaf-lists, at any depth, with default flags.  Theorem statements only; the model
   (DiffTree.v) transcribes lyd_diff_siblings() and lyd_diff_apply_all() of src/diff.c and is tied to the C code by the
   correspondence run tools/props/comps_difftree.py (same diff trees, same patched trees as libyang on generated
   triples).  User-ordered lists: Properties_C06_uord.v.

   [wfb sch f] is the executable well-formedness of the inputs (DiffTree.v): the fragment (no user-ordered /
   duplicate-instance list, no anydata), no metadata, siblings sorted with unique identities that the order tells
   apart, a non-presence container carries the default flag iff all its children do, other inner nodes and keys never
   do, list keys lead, are present and are leaves.  The correspondence run evaluates it on every generated tree
   (all satisfy it: these are the invariants the parser and validation maintain). *)
From LY Require Import Base Tree TreeP DiffTree DiffTreeP.
Local Open Scope N_scope.

(* The difference of a tree with itself is empty, with and without the defaults option. *)
Theorem C06_diff_self_empty :
  forall sch o f, wfb sch f = true -> diff sch o f f = Ok [].
Proof. exact diff_self_empty. Qed.
Print Assumptions C06_diff_self_empty.

(* For any two well-formed trees A and B over one schema, computing their difference with default nodes considered
   (LYD_DIFF_DEFAULTS) succeeds and applying it to A succeeds and yields B EXACTLY: every node, value, order and
   default flag (the flags of non-presence containers included - the lyd_np_cont_dflt_set/_del walks of
   lyd_diff_apply_r are part of the model).  Covers value changes, creation and deletion at any depth, case
   switches (delete + create), system-ordered lists and leaf-lists. *)
Theorem C06_apply_diff_exact :
  forall sch fa fb, wfb sch fa = true -> wfb sch fb = true ->
  exists ds, diff sch true fa fb = Ok ds /\ apply sch ds fa = Ok fb.
Proof. exact apply_diff_exact. Qed.
Print Assumptions C06_apply_diff_exact.

(* The patched tree is well-formed again, in particular its siblings are in the canonical order
   (consequence of exactness: it IS the second tree). *)
Theorem C06_apply_canon :
  forall sch fa fb ds r, wfb sch fa = true -> wfb sch fb = true ->
  diff sch true fa fb = Ok ds -> apply sch ds fa = Ok r ->
  wfb sch r = true /\ (Canon sch fb -> Canon sch r).
Proof.
  intros sch fa fb ds r Ha Hb Ed Er. destruct (apply_diff_exact sch fa fb Ha Hb) as [ds' [Ed' Er']].
  assert (ds' = ds) by congruence. subst ds'. assert (r = fb) by congruence. subst r. split; [exact Hb|auto].
Qed.
Print Assumptions C06_apply_canon.

(* Without the defaults option (default nodes are skipped and never match) the property says: equal after
   re-validation.  Full-strength statement on the model (validation is not modelled; what is left of it is that the
   explicit nodes agree):
     forall A B well-formed, exists ds r, diff sch false A B = Ok ds /\ apply sch ds A = Ok r /\ strip_dflt r = strip_dflt B.
   It has no general proof yet (the created explicit nodes live next to default nodes with the same identity until
   validation removes those, which needs another invariant than the one of C06_apply_diff_exact); the correspondence
   run evaluates it on the model for every generated triple (field nd=1 of the answer) and the model agrees with
   libyang on apply(diff(A,B),A) without the option on all of them.  Proved: on trees that hold no default node the
   option makes no difference (diff_nodflt_option) and the result is exact. *)
Theorem C06_apply_diff_nodflt_partial :
  forall sch fa fb, wfb sch fa = true -> wfb sch fb = true -> nodfltb fa = true -> nodfltb fb = true ->
  exists ds, diff sch false fa fb = Ok ds /\ apply sch ds fa = Ok fb.
Proof. exact apply_diff_nodflt_partial. Qed.
Print Assumptions C06_apply_diff_nodflt_partial.

(* What the diff MEANS does not depend on the order of its siblings: any diff whose nodes describe, identity by
   identity, the change from the siblings fa to the siblings fb (DiffTreeP.LevelSp / Sp: delete, create, replace, none
   with orig-default, none with children - recursively) yields fb when applied to fa.  lyd_diff_siblings produces
   such a diff (diff_sp); lyd_diff_reverse_all keeps the property with the roles swapped (C13). *)
Theorem C06_apply_any_order :
  forall sch ds fa fb, LevelSp sch (Sp sch None) ds fa fb -> SibOk sch fa -> AllSome sch fa -> SibOk sch fb ->
  apply sch ds fa = Ok fb.
Proof. exact apply_level_sp. Qed.
Print Assumptions C06_apply_any_order.

(* the hypotheses are satisfiable by a non-trivial pair: a list with two instances, a non-presence container whose
   default flag changes, a leaf whose value changes, an instance that is deleted and one that is created.
   schema: 0 list l (key 1), 1 leaf k, 2 container c (non-presence, in l), 3 leaf x (in c, default 7), 4 leaf y (top) *)
Definition ex_sch : schema :=
  [ (0, mk_sinfo KList None [1] false true [] [] false 0 None OBytes);
    (1, mk_sinfo KLeaf (Some 0) [] false true [] [] false 0 None OInt);
    (2, mk_sinfo (KCont false) (Some 0) [] false true [] [] false 0 None OBytes);
    (3, mk_sinfo KLeaf (Some 2) [] false true [[55]] [] false 0 None OBytes);
    (4, mk_sinfo KLeaf None [] false true [] [] false 0 None OBytes) ].

Definition ex_l (k : N) (c : dnode) : dnode := DN 0 [] false [] [DN 1 [k] false [] []; c].
Definition ex_A : forest :=
  [ ex_l 49 (DN 2 [] false [] [DN 3 [53] false [] []]);         (* l[1]: c { x = 5 } *)
    ex_l 50 (DN 2 [] true [] [DN 3 [55] true [] []]);           (* l[2]: c (default) { x = 7 (default) } *)
    DN 4 [97] false [] [] ].                                    (* y = a *)
Definition ex_B : forest :=
  [ ex_l 49 (DN 2 [] true [] [DN 3 [55] true [] []]);           (* l[1]: c becomes default *)
    ex_l 51 (DN 2 [] false [] [DN 3 [56] false [] []]);         (* l[2] deleted, l[3] created *)
    DN 4 [98] false [] [] ].                                    (* y = b *)

Example C06_example :
  wfb ex_sch ex_A = true /\ wfb ex_sch ex_B = true /\
  match diff ex_sch true ex_A ex_B with
  | Ok ds => length ds = 4%nat /\ apply ex_sch ds ex_A = Ok ex_B
  | Err _ => False
  end.
Proof. vm_compute. repeat split; reflexivity. Qed.
